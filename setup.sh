#!/bin/sh
set -e
cd "$(dirname "$0")"
export GOFLAGS=-mod=mod GOPROXY=off
[ -d engine ] && (cd engine && go build -o ../bin/gosymex .)
