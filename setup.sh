#!/bin/sh
# Build the symbolic executor offline from files on disk.
set -e
cd "$(dirname "$0")"
export GOFLAGS=-mod=mod GOPROXY=off
[ "$GOTOOLCHAIN" = local ] && unset GOTOOLCHAIN
[ "$GOSUMDB" = off ] && unset GOSUMDB
mkdir -p bin
(cd engine && go build -o ../bin/gosymex .)
echo "gosymex built"
