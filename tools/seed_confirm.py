#!/usr/bin/env python3
"""Confirm a seeded breaking change in a scratch worktree and file it under /verif/seeded/<name>/.

  tools/seed_confirm.py <source dir with patch.diff, demo_test.go, notes.md> <property> <name>

Steps (all in a scratch worktree of /repo's HEAD under /tmp, removed afterwards):
  1. patch applies, project builds, the whole existing test suite (both modules) passes with it;
  2. the demonstration fails with the patch;
  3. the demonstration passes without the patch.
Only when all three hold is the change kept.
"""
import json, os, re, shutil, subprocess, sys, time

ROOT = os.path.dirname(os.path.dirname(os.path.abspath(__file__)))
ENV = dict(os.environ, GOFLAGS="-mod=mod", GOPROXY="off")
ENV.pop("GOTOOLCHAIN", None)
ENV.pop("GOSUMDB", None)


def sh(cmd, cwd, timeout=3000):
    p = subprocess.run(cmd, cwd=cwd, env=ENV, shell=True, capture_output=True, text=True, timeout=timeout)
    return p.returncode, (p.stdout + p.stderr)


def main():
    src, prop, name = sys.argv[1], sys.argv[2], sys.argv[3]
    wt = "/tmp/seedchk/" + name
    os.makedirs("/tmp/seedchk", exist_ok=True)
    sh("git -C /repo worktree remove --force %s" % wt, "/")
    rc, out = sh("git -C /repo worktree add --detach %s HEAD" % wt, "/")
    if rc:
        raise SystemExit("worktree: " + out)
    res = {"property": prop, "name": name, "base_commit": sh("git rev-parse HEAD", wt)[1].strip()}
    try:
        patch = os.path.abspath(os.path.join(src, "patch.diff"))
        demo = open(os.path.join(src, "demo_test.go")).read()
        m = re.search(r"^// dir: *(\S+)", demo, re.M)
        ddir = m.group(1) if m else "."
        m = re.search(r"^// run: *(.+)$", demo, re.M)
        runcmd = m.group(1).strip() if m else "go test -vet=off -count=1 -run Seed ."
        runcmd = re.sub(r"/tmp/seed/C\d+b?", wt, runcmd)
        runcmd = re.sub(r"GOFLAGS=\S+ |GOPROXY=\S+ ", "", runcmd)
        demo_path = os.path.join(wt, ddir, "zz_seed_demo_test.go")
        rc, out = sh("git apply " + patch, wt)
        res["applies"] = rc == 0
        if rc:
            res["error"] = out[-800:]
            return res
        t0 = time.time()
        rc1, out1 = sh("go build ./... && go test -vet=off -count=1 -timeout 25m ./...", wt)
        rc2, out2 = sh("go test -vet=off -count=1 -timeout 25m ./...", os.path.join(wt, "test"))
        res["suite_passes_with_patch"] = rc1 == 0 and rc2 == 0
        res["suite_s"] = round(time.time() - t0)
        if not res["suite_passes_with_patch"]:
            res["suite_output"] = (out1[-1500:] if rc1 else "") + (out2[-1500:] if rc2 else "")
        shutil.copy(os.path.join(src, "demo_test.go"), demo_path)
        dcwd = wt
        rc, out = sh(runcmd, dcwd, 1200)
        res["demo_cmd"] = "(demo copied to <repo>/%s/zz_seed_demo_test.go) cd <repo> && %s" % (ddir, runcmd.replace(wt, "<repo>"))
        res["demo_fails_with_patch"] = rc != 0 and ("--- FAIL" in out or "panic:" in out) and "[build failed]" not in out and "[setup failed]" not in out
        res["demo_with_patch_tail"] = out[-600:]
        sh("git apply -R " + patch, wt)
        rc, out = sh(runcmd, dcwd, 1200)
        res["demo_passes_without_patch"] = rc == 0
        if rc:
            res["demo_without_patch_tail"] = out[-600:]
        res["confirmed"] = bool(res["suite_passes_with_patch"] and res["demo_fails_with_patch"] and res["demo_passes_without_patch"])
        return res
    finally:
        sh("git -C /repo worktree remove --force %s" % wt, "/")
        shutil.rmtree(wt, ignore_errors=True)
        dst = os.path.join(ROOT, "seeded", name)
        if res.get("confirmed"):
            os.makedirs(dst, exist_ok=True)
            shutil.copy(os.path.join(src, "patch.diff"), os.path.join(dst, "patch.diff"))
            shutil.copy(os.path.join(src, "demo_test.go"), os.path.join(dst, "demo_test.go"))
            notes = ""
            if os.path.exists(os.path.join(src, "notes.md")):
                shutil.copy(os.path.join(src, "notes.md"), os.path.join(dst, "notes.md"))
                notes = open(os.path.join(src, "notes.md")).read()
            meta = {"property": prop, "breaks": notes[:1500], "needs_to_manifest": "see notes.md",
                    "confirmed_by": "tools/seed_confirm.py in a scratch worktree of /repo at " + res["base_commit"],
                    "what_was_run": {"suite_with_patch": "go build ./... && go test -vet=off -count=1 ./... (root and test modules): pass",
                                     "demo": res.get("demo_cmd"), "demo_with_patch": "fails", "demo_without_patch": "passes"},
                    "author": "independent sub-agent given only the property text", "detection": {}}
            mp = os.path.join(dst, "meta.json")
            if os.path.exists(mp):
                old = json.load(open(mp))
                meta["detection"] = old.get("detection", {})
            json.dump(meta, open(mp, "w"), indent=1)
        print(json.dumps(res, indent=1))


if __name__ == "__main__":
    main()
