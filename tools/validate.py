#!/opt/veriftools/pyvenv/bin/python3
import json, jsonschema, glob, sys
m = json.load(open('/verif/MANIFEST.json'))
jsonschema.validate(m, json.load(open('/root/.vp/MANIFEST.schema.json')))
es = json.load(open('/root/.vp/EVIDENCE.schema.json'))
for c in m['checks']:
    try:
        jsonschema.validate(json.load(open('/verif/' + c['evidence_file'])), es)
    except Exception as e:
        print('EVIDENCE INVALID', c['property_id'], str(e)[:300]); sys.exit(1)
ids = {c['property_id'] for c in m['checks']} | {n['property_id'] for n in m['not_applicable']}
assert len(ids) == 30, ids
print('manifest and', len(m['checks']), 'evidence files valid')
