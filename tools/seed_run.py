#!/usr/bin/env python3
"""Run the check of a property against a seeded breaking change.

  tools/seed_run.py <name> [quick|thorough ...]

The patch of /verif/seeded/<name>/ is applied to a scratch worktree of /repo's
HEAD (under /tmp, removed afterwards); the check runs with VERIF_REPO pointing
at it and VERIF_OUT diverted, so /repo, evidence/ and replays/ are untouched.
The outcome is recorded in seeded/<name>/meta.json under "detection".
"""
import json, os, re, shutil, subprocess, sys, time
ROOT = os.path.dirname(os.path.dirname(os.path.abspath(__file__)))

def main():
    name = sys.argv[1]
    tiers = sys.argv[2:] or ["quick", "thorough"]
    d = os.path.join(ROOT, "seeded", name)
    meta = json.load(open(os.path.join(d, "meta.json")))
    props = meta["property"] if isinstance(meta["property"], list) else [meta["property"]]
    props = meta.get("run_checks", props)
    wt = "/tmp/seedrun/" + name
    os.makedirs("/tmp/seedrun", exist_ok=True)
    subprocess.run(["git", "-C", "/repo", "worktree", "remove", "--force", wt], capture_output=True)
    subprocess.run(["git", "-C", "/repo", "worktree", "add", "--detach", wt, "HEAD"], check=True, capture_output=True)
    out_dir = "/tmp/seedrun/" + name + ".out"
    try:
        subprocess.run(["git", "apply", os.path.join(d, "patch.diff")], cwd=wt, check=True)
        env = dict(os.environ, VERIF_REPO=wt, VERIF_OUT=out_dir)
        det = meta.setdefault("detection", {})
        for prop in props:
            for tier in tiers:
                t0 = time.time()
                p = subprocess.run([os.path.join(ROOT, "check"), prop, tier], env=env, capture_output=True, text=True)
                lines = [l for l in p.stdout.splitlines() if re.match(r"VIOLATION|INCONCLUSIVE|OK |KNOWN|  harness=|  native", l)]
                det["%s %s" % (prop, tier)] = {"exit": p.returncode, "caught": p.returncode == 1 and "VIOLATION property=" in p.stdout,
                                               "wall_s": round(time.time() - t0), "lines": [l[:300] for l in lines[:8]]}
                print(name, prop, tier, "exit", p.returncode, "caught" if det["%s %s" % (prop, tier)]["caught"] else "MISSED")
                for l in lines[:6]:
                    print("   ", l[:240])
                if det["%s %s" % (prop, tier)]["caught"]:
                    break
        meta["detected"] = any(v["caught"] for v in det.values())
        json.dump(meta, open(os.path.join(d, "meta.json"), "w"), indent=1)
    finally:
        subprocess.run(["git", "-C", "/repo", "worktree", "remove", "--force", wt], capture_output=True)
        shutil.rmtree(wt, ignore_errors=True)
        shutil.rmtree(out_dir, ignore_errors=True)

if __name__ == "__main__":
    main()
