#!/usr/bin/env python3
"""Regenerate MANIFEST.json from checks.json and the texts below."""
import json, os
ROOT = os.path.dirname(os.path.dirname(os.path.abspath(__file__)))
props = [json.loads(l) for l in open(os.path.join(ROOT, "properties.jsonl"))]
checks = json.load(open(os.path.join(ROOT, "checks.json")))["checks"]
meta = json.load(open(os.path.join(ROOT, "tools", "manifest_meta.json")))
TECH = "bounded symbolic execution of go/ssa built from /repo's working tree; path feasibility and negated assertions decided by an SMT solver (z3); counterexamples replayed natively"
m = {
 "version": 1,
 "setup_cmd": "./setup.sh",
 "hooks": {"guard": "none: harness files are injected by overlay (go/packages Overlay for the engine, go test -overlay for native replay); /repo carries no hook",
           "enable": "overlay files under /verif/harness, assembled by ./check at run time",
           "baseline_off_cmd": "cd /repo && go test -mod=mod -vet=off -count=1 -timeout 25m ./... && cd test && go test -mod=mod -vet=off -count=1 -timeout 25m ./...",
           "source_commits": [], "add_only": True},
 "engines": [{"name": "gosymex", "path": "engine", "serves_properties": sorted(checks),
              "kind_free_text": "SSA-level symbolic executor for Go written for this task: symbolic bytes/integers/floats, concrete heap shapes, KLEE-style path exploration by deterministic re-execution, z3 (5.1.0 CLI, QF_BV/ALL) over one pipe per worker, exact byte-domain pre-filter for single-byte branch conditions (cross-checked against the solver), native replay of every counterexample"}],
 "checks": [], "not_applicable": [],
 "notes": "All checks are reduced to the kernels named in level_note; see DESIGN.md section 3 for what lies outside each claim.",
}
for p in props:
    pid = p["id"]
    if pid in checks:
        mm = meta["claimed"][pid]
        c = {"property_id": pid, "quick_cmd": "./check %s quick" % pid, "thorough_cmd": "./check %s thorough" % pid,
             "evidence_file": "evidence/%s.json" % pid, "replay_cmd_template": "./check replay {path}", "engine": "gosymex",
             "level_claimed": {"category": "model_checking", "text": mm["text"], "design_ref": "DESIGN.md section 3, " + pid},
             "level_note": mm["note"], "technique": TECH}
        m["checks"].append(c)
    else:
        m["not_applicable"].append({"property_id": pid, "reason": meta["na"].get(pid, "check not built yet (work in progress, see DESIGN.md)")})
json.dump(m, open(os.path.join(ROOT, "MANIFEST.json"), "w"), indent=1)
print("claimed:", [c["property_id"] for c in m["checks"]])
