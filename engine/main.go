package main

import (
	"crypto/sha256"
	"encoding/json"
	"flag"
	"fmt"
	"go/token"
	"os"
	"path/filepath"
	"regexp"
	"runtime"
	"runtime/pprof"
	"sort"
	"strings"
	"time"

	"golang.org/x/tools/go/packages"
	"golang.org/x/tools/go/ssa"
	"golang.org/x/tools/go/ssa/ssautil"
)

type HarnessResult struct {
	Harness         string           `json:"harness"`
	Stats           Stats            `json:"stats"`
	Violations      []Violation      `json:"violations"`
	Aborts          map[string]int   `json:"aborts"`
	Tags            map[string]int64 `json:"tags"`
	Functions       []string         `json:"functions"`
	Samples         []string         `json:"samples"`
	SampleVecs      [][]uint64       `json:"sample_vecs"`
	WallS           float64          `json:"wall_s"`
	TimedOut        bool             `json:"timed_out"`
	SolverQ         int              `json:"solver_queries"`
	SolverSat       int              `json:"solver_sat"`
	SolverUnsat     int              `json:"solver_unsat"`
	SolverUnk       int              `json:"solver_unknown"`
	SolverErr       int              `json:"solver_errors"`
	SolverS         float64          `json:"solver_s"`
	SolverFallbacks int              `json:"solver_oneshot_fallbacks"`
}

type RunResult struct {
	Repo       string            `json:"repo"`
	Harnesses  []HarnessResult   `json:"harnesses"`
	LoadS      float64           `json:"load_s"`
	SourceHash map[string]string `json:"source_hash"`
	Solver     string            `json:"solver"`
}

func main() {
	repo := flag.String("repo", "/repo", "repository root")
	hdir := flag.String("harness", "", "directory with harness files: <dir>/<pkgrel>/*.go are overlaid into <repo>/<pkgrel>/")
	pats := flag.String("pkgs", ".", "comma-separated package patterns to load")
	run := flag.String("run", "", "regexp of harness function names (vh_*)")
	workers := flag.Int("workers", runtime.NumCPU(), "parallel workers")
	out := flag.String("out", "", "result JSON file")
	solver := flag.String("solver", "z3-new", "solver binary")
	logic := flag.String("logic", "QF_BV", "SMT-LIB logic (QF_BV is fastest; ALL for floating point / uninterpreted functions)")
	timeout := flag.Int("solver-timeout-ms", 20000, "per-query timeout")
	fallback := flag.Int("fallback-ms", 0, "on an unknown answer of the incremental solver, re-decide the query with a one-shot solver run of this many milliseconds (0 = off)")
	budget := flag.Int("budget", 300000, "SSA steps per path")
	maxViol := flag.Int("max-violations", 50, "violations kept per harness")
	deadline := flag.Duration("deadline", 0, "wall-clock limit per harness (0 = none)")
	smtlog := flag.String("smtlog", "", "prefix for solver transcripts")
	verbose := flag.Bool("v", false, "verbose")
	list := flag.Bool("list", false, "list harnesses")
	seed := flag.Int64("seed", 0, "seed for choosing path witnesses")
	cpuprof := flag.String("cpuprofile", "", "write a CPU profile")
	flag.Parse()
	if *cpuprof != "" {
		f, _ := os.Create(*cpuprof)
		pprof.StartCPUProfile(f)
		defer pprof.StopCPUProfile()
	}

	t0 := time.Now()
	overlay := map[string][]byte{}
	if *hdir != "" {
		filepath.Walk(*hdir, func(p string, info os.FileInfo, err error) error {
			if err != nil || info.IsDir() || !strings.HasSuffix(p, ".go") {
				return nil
			}
			rel, _ := filepath.Rel(*hdir, p)
			data, _ := os.ReadFile(p)
			dst := filepath.Join(*repo, rel)
			if strings.HasPrefix(rel, "vmodels/") {
				dst = filepath.Join(*repo, "internal", rel)
			}
			overlay[dst] = data
			return nil
		})
	}
	fset := token.NewFileSet()
	cfg := &packages.Config{Mode: packages.LoadAllSyntax, Dir: *repo, Overlay: overlay, Fset: fset,
		Env: append(os.Environ(), "GOFLAGS=-mod=mod", "GOPROXY=off")}
	patterns := strings.Split(*pats, ",")
	patterns = append(patterns, "./internal/vmodels", "unicode/utf8", "strings", "bytes")
	pkgs, err := packages.Load(cfg, patterns...)
	if err != nil {
		fmt.Fprintf(os.Stderr, "load: %v\n", err)
		os.Exit(3)
	}
	nerr := 0
	packages.Visit(pkgs, nil, func(p *packages.Package) {
		for _, e := range p.Errors {
			fmt.Fprintf(os.Stderr, "load error: %s: %v\n", p.PkgPath, e)
			nerr++
		}
	})
	if nerr > 0 {
		os.Exit(3)
	}
	prog, _ := ssautil.AllPackages(pkgs, ssa.InstantiateGenerics)
	prog.Build()
	eng := &Engine{prog: prog, fset: fset, pkgs: map[string]*ssa.Package{}, infos: map[*ssa.Function]*fnInfo{},
		globals: map[*ssa.Global]*Cell{}, initDone: map[*ssa.Package]bool{}, solverBin: *solver, logic: *logic, solverTimeoutMs: *timeout,
		smtLog: *smtlog, verbose: *verbose, fallbackMs: *fallback}
	for _, p := range prog.AllPackages() {
		eng.pkgs[p.Pkg.Path()] = p
		if strings.HasSuffix(p.Pkg.Path(), "/internal/vmodels") {
			eng.modelsPkg = p
		}
	}
	eng.buildIntrinsics()
	loadS := time.Since(t0).Seconds()

	// harness list
	re := regexp.MustCompile("^(" + *run + ")$")
	var names []string
	for _, ip := range pkgs {
		sp := prog.Package(ip.Types)
		if sp == nil {
			continue
		}
		for name, m := range sp.Members {
			if f, ok := m.(*ssa.Function); ok && strings.HasPrefix(name, "vh_") && f.Signature.Params().Len() == 0 {
				if *run == "" || re.MatchString(name) {
					names = append(names, name)
				}
			}
		}
	}
	sort.Strings(names)
	if *list {
		for _, n := range names {
			fmt.Println(n)
		}
		return
	}
	res := RunResult{Repo: *repo, LoadS: loadS, SourceHash: map[string]string{}, Solver: *solver}
	for _, name := range names {
		ex := &Explorer{eng: eng, harness: name, maxViol: *maxViol, stepBudget: *budget, rng: uint64(*seed)*2654435761 + 12345}
		if *deadline > 0 {
			ex.deadline = time.Now().Add(*deadline)
		}
		th := time.Now()
		ex.Run(*workers)
		hr := HarnessResult{Harness: name, Stats: ex.stats, Violations: ex.violations, Aborts: ex.abortMsgs, Tags: ex.tags,
			Samples: ex.samples, SampleVecs: ex.sampleVecs, WallS: time.Since(th).Seconds(), TimedOut: ex.timedOut != 0,
			SolverQ: ex.solverStats.queries, SolverSat: ex.solverStats.sat, SolverUnsat: ex.solverStats.unsat,
			SolverUnk: ex.solverStats.unknown, SolverErr: ex.solverStats.errors, SolverS: ex.solverStats.time.Seconds(), SolverFallbacks: ex.solverStats.fallbacks}
		for f := range ex.funcs {
			hr.Functions = append(hr.Functions, f)
		}
		sort.Strings(hr.Functions)
		res.Harnesses = append(res.Harnesses, hr)
		fmt.Printf("%-40s paths=%d ok=%d pruned=%d abort=%d viol=%d oblig=%d/%d unk=%d queries=%d steps=%d %.1fs\n", name,
			hr.Stats.Paths, hr.Stats.Completed, hr.Stats.Pruned, hr.Stats.Aborted, hr.Stats.Violations,
			hr.Stats.Discharged, hr.Stats.Obligations, hr.Stats.Unknown, hr.SolverQ, hr.Stats.Steps, hr.WallS)
		if *verbose || true {
			for m, n := range hr.Aborts {
				fmt.Printf("    abort x%d: %s\n", n, m)
			}
			for i, v := range hr.Violations {
				if i >= 5 {
					fmt.Printf("    ... %d more\n", len(hr.Violations)-5)
					break
				}
				fmt.Printf("    VIOL %s [%s] %s  inputs: %s\n", v.Kind, v.Label, v.Message, strings.Join(v.Pretty, " "))
			}
		}
		// hashes of the source files of entered functions
		for _, f := range hr.Functions {
			_ = f
		}
	}
	// source hashes of repo files that define entered functions
	files := map[string]bool{}
	for _, hr := range res.Harnesses {
		_ = hr
	}
	for fn := range allFunctions(prog) {
		if fn.Pos().IsValid() {
			fnm := fset.Position(fn.Pos()).Filename
			if strings.HasPrefix(fnm, *repo) {
				files[fnm] = true
			}
		}
	}
	for f := range files {
		if data, err := os.ReadFile(f); err == nil {
			res.SourceHash[strings.TrimPrefix(f, *repo+"/")] = fmt.Sprintf("%x", sha256.Sum256(data))[:16]
		}
	}
	if *out != "" {
		data, _ := json.MarshalIndent(res, "", " ")
		os.WriteFile(*out, data, 0o644)
	}
}
