package main

import (
	"fmt"
	"math/big"
	"os"
	"sort"
	"sync"
	"sync/atomic"
	"time"
)

// Event is one recorded solver-relevant outcome along a path.
type Event struct {
	Val    uint64
	Forced bool // implied by the path condition: no solver level
}

type Item struct {
	Trace []Event
	Model Model
	Big   map[string]*big.Int
	NoMod bool                  // model not available (after an unknown answer)
	Dom   map[string]*bitset256 // exact value sets of byte/bool symbols constrained only by unary conditions
	Mixed map[string]bool       // symbols that occur in a multi-symbol constraint of the path condition
}

type bitset256 [4]uint64

func (b *bitset256) has(v uint64) bool { return b[v>>6]&(1<<(v&63)) != 0 }
func (b *bitset256) set(v uint64)      { b[v>>6] |= 1 << (v & 63) }
func (b *bitset256) empty() bool       { return b[0]|b[1]|b[2]|b[3] == 0 }
func (b *bitset256) first() uint64 {
	for v := uint64(0); v < 256; v++ {
		if b.has(v) {
			return v
		}
	}
	return 0
}

func fullDomain(s Sort) *bitset256 {
	var b bitset256
	n := uint64(2)
	if s > 0 {
		n = 1 << uint(s)
	}
	for v := uint64(0); v < n; v++ {
		b.set(v)
	}
	return &b
}

type Violation struct {
	Harness string   `json:"harness"`
	Kind    string   `json:"kind"` // assert | panic | goroutine-panic | budget | deadlock
	Label   string   `json:"label"`
	Message string   `json:"message"`
	Inputs  []uint64 `json:"inputs"`
	Pretty  []string `json:"pretty"`
	Pos     string   `json:"pos"`
}

type Stats struct {
	Paths             int64 // paths run to an end state
	Completed         int64 // returned normally from the harness
	Pruned            int64 // ended by vassume(false)/infeasible
	Aborted           int64 // left the kernel (unsupported)
	Budget            int64
	Events            int64
	Obligations       int64
	Discharged        int64
	DomainDecisions   int64 // branch feasibility decided by the exact byte-domain procedure (no query)
	DomainCrossChecks int64 // of those, re-decided by the solver for validation
	ByEval            int64 // obligations that folded to true by symbolic evaluation (no query needed)
	Unknown           int64
	Steps             int64
	Violations        int64
	PanicsCaught      int64
}

// Explorer explores all paths of one harness with a pool of workers.
type Explorer struct {
	eng     *Engine
	harness string
	mu      sync.Mutex
	cond    *sync.Cond
	stacks  [][]*Item // per-worker LIFO
	idle    int
	done    bool
	nwork   int

	stats        Stats
	violations   []Violation
	abortMsgs    map[string]int
	violPerLabel map[string]int
	tags         map[string]int64
	funcs        map[string]bool
	samples      []string
	sampleVecs   [][]uint64
	rng          uint64
	maxViol      int
	stepBudget   int
	budgetIsBug  bool
	deadline     time.Time
	timedOut     int32
	solverStats  struct {
		queries, sat, unsat, unknown, errors, fallbacks int
		time                                            time.Duration
	}
}

func (ex *Explorer) push(w int, it *Item) {
	ex.mu.Lock()
	ex.stacks[w] = append(ex.stacks[w], it)
	if ex.idle > 0 {
		ex.cond.Signal()
	}
	ex.mu.Unlock()
}

// pop returns the next item for worker w: own stack top, else steal the
// shallowest item of the fullest other stack.
func (ex *Explorer) pop(w int) *Item {
	ex.mu.Lock()
	defer ex.mu.Unlock()
	for {
		if ex.done {
			return nil
		}
		if n := len(ex.stacks[w]); n > 0 {
			it := ex.stacks[w][n-1]
			ex.stacks[w] = ex.stacks[w][:n-1]
			return it
		}
		best, bn := -1, 0
		for i, s := range ex.stacks {
			if len(s) > bn {
				best, bn = i, len(s)
			}
		}
		if best >= 0 {
			it := ex.stacks[best][0]
			ex.stacks[best] = ex.stacks[best][1:]
			return it
		}
		ex.idle++
		if ex.idle == ex.nwork {
			ex.done = true
			ex.cond.Broadcast()
			return nil
		}
		ex.cond.Wait()
		ex.idle--
	}
}

func (ex *Explorer) Run(nworkers int) {
	ex.nwork = nworkers
	ex.cond = sync.NewCond(&ex.mu)
	ex.stacks = make([][]*Item, nworkers)
	ex.stacks[0] = []*Item{{Model: Model{}}}
	ex.abortMsgs = map[string]int{}
	ex.tags = map[string]int64{}
	ex.funcs = map[string]bool{}
	var wg sync.WaitGroup
	for i := 0; i < nworkers; i++ {
		wg.Add(1)
		go func(i int) {
			defer wg.Done()
			w := &Worker{ex: ex, id: i}
			var err error
			logp := ""
			if ex.eng.smtLog != "" {
				logp = fmt.Sprintf("%s.%s.%d.smt2", ex.eng.smtLog, ex.harness, i)
			}
			w.solver, err = NewSolver(ex.eng.solverBin, ex.eng.solverTimeoutMs, logp, ex.eng.logic)
			if err == nil {
				w.solver.fallbackMs = ex.eng.fallbackMs
			}
			if err != nil {
				fmt.Fprintf(os.Stderr, "cannot start solver: %v\n", err)
				os.Exit(3)
			}
			defer w.solver.Close()
			for {
				it := ex.pop(i)
				if it == nil {
					break
				}
				if !ex.deadline.IsZero() && time.Now().After(ex.deadline) {
					atomic.StoreInt32(&ex.timedOut, 1)
					continue // drain
				}
				w.runItem(it)
			}
			ex.mu.Lock()
			ex.solverStats.queries += w.solver.Queries
			ex.solverStats.sat += w.solver.SatCount
			ex.solverStats.unsat += w.solver.Unsats
			ex.solverStats.unknown += w.solver.Unknowns
			ex.solverStats.errors += w.solver.Errors
			ex.solverStats.time += w.solver.Time
			for f := range w.funcs {
				ex.funcs[f] = true
			}
			ex.mu.Unlock()
		}(i)
	}
	wg.Wait()
}

// Worker owns a solver and runs items one at a time.
type Worker struct {
	ex        *Explorer
	id        int
	solver    *Solver
	lastTrace []Event
	funcs     map[string]bool
	ndom      int
}

// PathRun is the per-path state shared between the interpreter and the
// exploration machinery.
type PathRun struct {
	w       *Worker
	tt      *TermTable
	prefix  []Event
	trace   []Event
	pos     int
	cp      int // events [0,cp) are already on the solver stack
	ev      *Evaluator
	hasMod  bool
	decided map[int32]bool
	inputs  []inputRec
	tags    []string
	dom     map[string]*bitset256
	mixed   map[string]bool
	pending *Item // domain snapshot to install when the prefix has been replayed
	ue      unaryEval
}

type inputRec struct {
	kind string
	vals []Value // scalar values (const or term)
	n    int     // for strings: chosen length
	sort []Sort
}

type pathEnd struct{ reason string }

func eventsEqual(a, b Event) bool { return a == b }

func (w *Worker) runItem(it *Item) {
	ex := w.ex
	// common prefix with the solver's current stack
	cp := 0
	for cp < len(it.Trace) && cp < len(w.lastTrace) && it.Trace[cp] == w.lastTrace[cp] {
		cp++
	}
	levels := 0
	for i := 0; i < cp; i++ {
		if !it.Trace[i].Forced {
			levels++
		}
	}
	if os.Getenv("GOSYMEX_NOREUSE") != "" {
		cp, levels = 0, 0
	}
	if w.solver.cmd == nil {
		w.solver.start()
		cp, levels = 0, 0
	}
	w.solver.PopTo(levels)
	pr := &PathRun{w: w, tt: NewTermTable(), prefix: it.Trace, cp: cp, decided: map[int32]bool{}, dom: map[string]*bitset256{}, mixed: map[string]bool{}}
	if len(it.Trace) == 0 {
		pr.installDomains(it)
	} else {
		pr.pending = it
	}
	pr.trace = make([]Event, 0, len(it.Trace)+16)
	if !it.NoMod {
		pr.ev = NewEvaluator(it.Model)
		pr.ev.big = it.Big
		pr.hasMod = true
	}
	interp := newInterp(ex.eng, pr)
	interp.stepBudget = ex.stepBudget
	if os.Getenv("GOSYMEX_DEBUGDEFS") != "" {
		fmt.Printf("RUN prefix=%v cp=%d levels=%d last=%v\n", it.Trace, cp, levels, w.lastTrace)
		defer func() {
			if r := recover(); r != nil {
				fmt.Printf("PANIC at pos=%d trace=%v\n", pr.pos, pr.trace)
				panic(r)
			}
		}()
	}
	outcome := interp.runHarness(ex.harness)
	w.lastTrace = pr.trace
	if w.solver.cmd != nil {
		nf := 0
		for _, e := range pr.trace {
			if !e.Forced {
				nf++
			}
		}
		if nf != w.solver.level {
			panic(fmt.Sprintf("solver level %d != non-forced events %d (outcome %s)", w.solver.level, nf, outcome.kind))
		}
	}
	if w.funcs == nil {
		w.funcs = map[string]bool{}
	}
	for f := range interp.entered {
		w.funcs[f.String()] = true
	}
	ex.mu.Lock()
	ex.stats.Paths++
	ex.stats.Steps += int64(interp.steps)
	ex.stats.Events += int64(len(pr.trace) - len(it.Trace))
	switch outcome.kind {
	case "ok":
		ex.stats.Completed++
		pow2 := (ex.stats.Completed & (ex.stats.Completed - 1)) == 0
		if len(ex.samples) < 8 && pow2 {
			ex.samples = append(ex.samples, pr.describeInputs(pr.ev))
		}
		// path witnesses for native validation: powers of two plus a seeded reservoir
		ex.rng = ex.rng*6364136223846793005 + 1442695040888963407
		if pow2 && len(ex.sampleVecs) < 24 {
			vec, _ := pr.inputVector(pr.evalOrZero())
			ex.sampleVecs = append(ex.sampleVecs, vec)
		} else if k := int((ex.rng >> 33) % uint64(ex.stats.Completed)); k < 24 {
			vec, _ := pr.inputVector(pr.evalOrZero())
			if len(ex.sampleVecs) < 48 {
				ex.sampleVecs = append(ex.sampleVecs, vec)
			} else {
				ex.sampleVecs[24+k] = vec
			}
		}
	case "pruned":
		ex.stats.Pruned++
	case "abort":
		ex.stats.Aborted++
		ex.abortMsgs[outcome.msg]++
	case "violation":
		ex.stats.Violations++
		// keep up to maxViol counterexamples per distinct (kind, label), so that a
		// rare kind of violation is never crowded out by a frequent one
		key := outcome.viol.Kind + "|" + outcome.viol.Label
		if ex.violPerLabel == nil {
			ex.violPerLabel = map[string]int{}
		}
		if ex.violPerLabel[key] < ex.maxViol && len(ex.violations) < 40*ex.maxViol {
			ex.violPerLabel[key]++
			ex.violations = append(ex.violations, *outcome.viol)
		}
	}
	for _, t := range pr.tags {
		ex.tags[t]++
	}
	ex.mu.Unlock()
}

func (pr *PathRun) solver() *Solver { return pr.w.solver }

func (pr *PathRun) record(e Event) {
	pr.trace = append(pr.trace, e)
	pr.pos++
	if pr.pending != nil && pr.pos == len(pr.prefix) {
		pr.installDomains(pr.pending)
		pr.pending = nil
	}
}

func (pr *PathRun) installDomains(it *Item) {
	pr.dom = map[string]*bitset256{}
	for k, v := range it.Dom {
		c := *v
		pr.dom[k] = &c
	}
	pr.mixed = map[string]bool{}
	for k := range it.Mixed {
		pr.mixed[k] = true
	}
}

func (pr *PathRun) domOf(sym *Term) *bitset256 {
	d := pr.dom[sym.name]
	if d == nil {
		d = fullDomain(sym.sort)
		pr.dom[sym.name] = d
	}
	return d
}

// markMixed records that the symbols of a multi-symbol constraint can no longer
// be decided by their own value sets.
func (pr *PathRun) markMixed(cond *Term) {
	if cond == nil || (!cond.supMulti && cond.supSym == nil) {
		return
	}
	if !cond.supMulti {
		pr.mixed[cond.supSym.name] = true
		return
	}
	var syms []*Term
	collectSyms(cond, map[int32]bool{}, &syms)
	for _, s := range syms {
		pr.mixed[s.name] = true
	}
}

// domainSplit partitions the value set of the single symbol of cond into the
// values that make cond true and those that make it false. ok is false when
// the byte-domain procedure does not apply.
func (pr *PathRun) domainSplit(cond *Term) (sym *Term, tset, fset bitset256, ok bool) {
	if os.Getenv("GOSYMEX_NODOMAIN") != "" || !unaryOK(cond) || pr.pending != nil {
		return nil, tset, fset, false
	}
	sym = cond.supSym
	if pr.mixed[sym.name] {
		return nil, tset, fset, false
	}
	defer func() {
		if r := recover(); r != nil {
			if r == errNotUnaryEvaluable {
				ok = false
				return
			}
			panic(r)
		}
	}()
	d := pr.domOf(sym)
	for v := uint64(0); v < 256; v++ {
		if !d.has(v) {
			continue
		}
		if pr.ue.eval(cond, v) != 0 {
			tset.set(v)
		} else {
			fset.set(v)
		}
	}
	return sym, tset, fset, true
}

// childDomains returns copies of the current domain maps for a child item.
func (pr *PathRun) childDomains() (map[string]*bitset256, map[string]bool) {
	d := make(map[string]*bitset256, len(pr.dom))
	for k, v := range pr.dom {
		c := *v
		d[k] = &c
	}
	m := make(map[string]bool, len(pr.mixed))
	for k := range pr.mixed {
		m[k] = true
	}
	return d, m
}

// crossCheck selects every 64th byte-domain decision for validation by the solver.
func (ex *Explorer) crossCheck(pr *PathRun) bool {
	pr.w.ndom++
	return pr.w.ndom%64 == 1
}

func (pr *PathRun) crossCheckSplit(cond *Term, tset, fset bitset256) {
	ex := pr.w.ex
	atomic.AddInt64(&ex.stats.DomainCrossChecks, 1)
	r1, _, _ := pr.checkSide(cond, true)
	r0, _, _ := pr.checkSide(cond, false)
	if (r1 == Sat) == tset.empty() && r1 != Unknown || (r0 == Sat) == fset.empty() && r0 != Unknown {
		panic(fmt.Sprintf("byte-domain procedure disagrees with the solver on %s: solver true-side=%v false-side=%v, domain true-empty=%v false-empty=%v",
			termString(cond), r1, r0, tset.empty(), fset.empty()))
	}
}

func modelWith(m Model, name string, v uint64) Model {
	c := make(Model, len(m)+1)
	for k, x := range m {
		c[k] = x
	}
	c[name] = v
	return c
}

func (pr *PathRun) inReplay() bool { return pr.pos < len(pr.prefix) }

// inReplayStrict reports whether the path is still strictly inside its prefix
// (work done there was already counted by the parent path).
func (pr *PathRun) inReplayStrict() bool { return pr.pos < len(pr.prefix) }

// assertSide pushes a level and asserts cond (or its negation).
func (pr *PathRun) assertSide(cond *Term, val bool) {
	s := pr.solver()
	r := ""
	if cond != nil {
		r = s.ref(cond)
	}
	s.Push()
	if cond != nil {
		if val {
			s.send("(assert " + r + ")")
		} else {
			s.send("(assert (not " + r + "))")
		}
	}
}

// assertFresh pushes a level and then defines and asserts cond. It is used
// when cond is created for this very event (its id is specific to the
// alternative taken), so its definition must not outlive the level.
func (pr *PathRun) assertFresh(cond *Term) {
	s := pr.solver()
	s.Push()
	s.Assert(cond)
}

func (pr *PathRun) setDecided(cond *Term, val bool) {
	pr.decided[cond.id] = val
	if cond.op == ONot {
		pr.decided[cond.a.id] = !val
	}
}

func (pr *PathRun) lookupDecided(cond *Term) (bool, bool) {
	if v, ok := pr.decided[cond.id]; ok {
		return v, true
	}
	if cond.op == ONot {
		if v, ok := pr.decided[cond.a.id]; ok {
			return !v, true
		}
	}
	return false, false
}

// checkSide asks the solver whether PC && (cond == val) is satisfiable. On
// Sat the model is returned. The solver stack is left unchanged.
func (pr *PathRun) checkSide(cond *Term, val bool) (SatResult, Model, map[string]*big.Int) {
	s := pr.solver()
	lvl := s.level
	pr.assertSide(cond, val)
	r := s.Check()
	var m Model
	var bg map[string]*big.Int
	if r == Sat {
		m, bg = s.GetModel(pr.tt.syms)
	}
	s.PopTo(lvl)
	return r, m, bg
}

func (pr *PathRun) childItem(e Event, m Model, bg map[string]*big.Int, nomod bool) *Item {
	tr := make([]Event, len(pr.trace)+1)
	copy(tr, pr.trace)
	tr[len(pr.trace)] = e
	d, mx := pr.childDomains()
	return &Item{Trace: tr, Model: m, Big: bg, NoMod: nomod, Dom: d, Mixed: mx}
}

func (pr *PathRun) setModel(m Model, bg map[string]*big.Int) {
	pr.ev = NewEvaluator(m)
	pr.ev.big = bg
	pr.hasMod = true
}

// Decide resolves a symbolic boolean into a concrete one, forking if needed.
func (pr *PathRun) Decide(cond *Term) bool {
	if cond.op == OConst {
		return cond.k != 0
	}
	if v, ok := pr.lookupDecided(cond); ok {
		return v
	}
	if pr.inReplay() {
		e := pr.prefix[pr.pos]
		val := e.Val != 0
		if !e.Forced && pr.pos >= pr.cp {
			pr.assertSide(cond, val)
		}
		pr.record(e)
		pr.setDecided(cond, val)
		return val
	}
	ex := pr.w.ex
	if pr.hasMod && !cond.hasUF {
		if sym, tset, fset, ok := pr.domainSplit(cond); ok {
			atomic.AddInt64(&ex.stats.DomainDecisions, 1)
			if ex.crossCheck(pr) {
				pr.crossCheckSplit(cond, tset, fset)
			}
			switch {
			case fset.empty() && tset.empty():
				panic(pathEnd{"infeasible"})
			case fset.empty():
				pr.record(Event{1, true})
				pr.setDecided(cond, true)
				return true
			case tset.empty():
				pr.record(Event{0, true})
				pr.setDecided(cond, false)
				return false
			}
			mv := pr.ev.EvalBool(cond)
			mine, other := tset, fset
			if !mv {
				mine, other = fset, tset
			}
			child := pr.childItem(Event{b2u(!mv), false}, modelWith(pr.ev.model, sym.name, other.first()), pr.ev.big, false)
			oc := other
			child.Dom[sym.name] = &oc
			ex.push(pr.w.id, child)
			mc := mine
			pr.dom[sym.name] = &mc
			pr.assertSide(cond, mv)
			pr.record(Event{b2u(mv), false})
			pr.setDecided(cond, mv)
			return mv
		}
		pr.markMixed(cond)
		mv := pr.ev.EvalBool(cond)
		r, m, bg := pr.checkSide(cond, !mv)
		switch r {
		case Unsat:
			pr.record(Event{b2u(mv), true})
		case Sat:
			ex.push(pr.w.id, pr.childItem(Event{b2u(!mv), false}, m, bg, false))
			pr.assertSide(cond, mv)
			pr.record(Event{b2u(mv), false})
		default:
			atomic.AddInt64(&ex.stats.Unknown, 1)
			ex.push(pr.w.id, pr.childItem(Event{b2u(!mv), false}, nil, nil, true))
			pr.assertSide(cond, mv)
			pr.record(Event{b2u(mv), false})
		}
		pr.setDecided(cond, mv)
		return mv
	}
	// no model: query both sides
	pr.markMixed(cond)
	r1, m1, b1 := pr.checkSide(cond, true)
	r0, m0, b0 := pr.checkSide(cond, false)
	if r1 == Unknown {
		atomic.AddInt64(&ex.stats.Unknown, 1)
	}
	if r0 == Unknown {
		atomic.AddInt64(&ex.stats.Unknown, 1)
	}
	switch {
	case r1 == Unsat && r0 == Unsat:
		panic(pathEnd{"infeasible"})
	case r0 == Unsat:
		pr.record(Event{1, true})
		if r1 == Sat {
			pr.setModel(m1, b1)
		}
		pr.setDecided(cond, true)
		return true
	case r1 == Unsat:
		pr.record(Event{0, true})
		if r0 == Sat {
			pr.setModel(m0, b0)
		}
		pr.setDecided(cond, false)
		return false
	}
	// both possible: take true, queue false
	ex.push(pr.w.id, pr.childItem(Event{0, false}, m0, b0, r0 != Sat))
	pr.assertSide(cond, true)
	pr.record(Event{1, false})
	if r1 == Sat {
		pr.setModel(m1, b1)
	}
	pr.setDecided(cond, true)
	return true
}

// Choose forks into n alternatives with no constraint.
func (pr *PathRun) Choose(n int) int {
	if n <= 1 {
		return 0
	}
	if pr.inReplay() {
		e := pr.prefix[pr.pos]
		if pr.pos >= pr.cp {
			pr.assertSide(nil, true)
		}
		pr.record(e)
		return int(e.Val)
	}
	ex := pr.w.ex
	for i := n - 1; i >= 1; i-- {
		var m Model
		var bg map[string]*big.Int
		if pr.hasMod {
			m, bg = pr.ev.model, pr.ev.big
		}
		ex.push(pr.w.id, pr.childItem(Event{uint64(i), false}, m, bg, !pr.hasMod))
	}
	pr.assertSide(nil, true)
	pr.record(Event{0, false})
	return 0
}

// Assume adds cond to the path condition; the path ends if it is infeasible.
func (pr *PathRun) Assume(cond *Term) {
	if cond.op == OConst {
		if cond.k == 0 {
			panic(pathEnd{"assume false"})
		}
		return
	}
	if v, ok := pr.lookupDecided(cond); ok {
		if !v {
			panic(pathEnd{"assume false"})
		}
		return
	}
	if pr.inReplay() {
		e := pr.prefix[pr.pos]
		if pr.pos >= pr.cp {
			pr.assertSide(cond, true)
		}
		pr.record(e)
		pr.setDecided(cond, true)
		return
	}
	if pr.hasMod {
		if sym, tset, _, ok := pr.domainSplit(cond); ok {
			atomic.AddInt64(&pr.w.ex.stats.DomainDecisions, 1)
			if tset.empty() {
				panic(pathEnd{"assume infeasible"})
			}
			tc := tset
			pr.dom[sym.name] = &tc
			pr.assertSide(cond, true)
			pr.record(Event{1, false})
			pr.setDecided(cond, true)
			if !pr.ev.EvalBool(cond) {
				pr.setModel(modelWith(pr.ev.model, sym.name, tset.first()), pr.ev.big)
			}
			return
		}
	}
	pr.markMixed(cond)
	pr.assertSide(cond, true)
	pr.record(Event{1, false})
	pr.setDecided(cond, true)
	if pr.hasMod && !cond.hasUF && pr.ev.EvalBool(cond) {
		return
	}
	s := pr.solver()
	r := s.Check()
	switch r {
	case Sat:
		m, bg := s.GetModel(pr.tt.syms)
		pr.setModel(m, bg)
	case Unsat:
		panic(pathEnd{"assume infeasible"})
	default:
		atomic.AddInt64(&pr.w.ex.stats.Unknown, 1)
		pr.hasMod = false
	}
}

// Prove checks that cond holds on every input of the current path. It returns
// true if proven (or concretely true). If it can fail, the returned model
// evaluator describes a counterexample.
func (pr *PathRun) Prove(cond *Term) (bool, *Evaluator) {
	ex := pr.w.ex
	if cond.op == OConst {
		if !pr.inReplayStrict() {
			atomic.AddInt64(&ex.stats.Obligations, 1)
		}
		if cond.k != 0 {
			if !pr.inReplayStrict() {
				atomic.AddInt64(&ex.stats.Discharged, 1)
				atomic.AddInt64(&ex.stats.ByEval, 1)
			}
			return true, nil
		}
		return false, pr.curEval()
	}
	if v, ok := pr.lookupDecided(cond); ok {
		if v {
			return true, nil
		}
		return false, pr.curEval()
	}
	if pr.inReplay() {
		e := pr.prefix[pr.pos]
		pr.record(e)
		pr.setDecided(cond, true)
		return true, nil
	}
	atomic.AddInt64(&ex.stats.Obligations, 1)
	if pr.hasMod && !cond.hasUF && !pr.ev.EvalBool(cond) {
		return false, pr.ev
	}
	r, m, bg := pr.checkSide(cond, false)
	switch r {
	case Unsat:
		atomic.AddInt64(&ex.stats.Discharged, 1)
		pr.record(Event{1, true})
		pr.setDecided(cond, true)
		return true, nil
	case Sat:
		ev := NewEvaluator(m)
		ev.big = bg
		return false, ev
	}
	atomic.AddInt64(&ex.stats.Unknown, 1)
	pr.record(Event{1, true})
	pr.setDecided(cond, true)
	return true, nil
}

func (pr *PathRun) curEval() *Evaluator {
	if pr.hasMod {
		return pr.ev
	}
	s := pr.solver()
	if s.Check() == Sat {
		m, bg := s.GetModel(pr.tt.syms)
		pr.setModel(m, bg)
		return pr.ev
	}
	return NewEvaluator(Model{})
}

const maxConcretize = 260

// Concretize forks over the feasible values of t (a bit-vector term <= 64 bits).
func (pr *PathRun) Concretize(t *Term) uint64 {
	if t.op == OConst {
		return t.k
	}
	tt := pr.tt
	if pr.inReplay() {
		e := pr.prefix[pr.pos]
		if !e.Forced && pr.pos >= pr.cp {
			pr.assertFresh(tt.Eq(t, tt.Const(t.sort, e.Val)))
		} else {
			tt.Eq(t, tt.Const(t.sort, e.Val)) // keep term creation identical
		}
		pr.record(e)
		return e.Val
	}
	ex := pr.w.ex
	useMod := pr.hasMod && !t.hasUF
	if useMod {
		if v, ok := pr.concretizeByDomain(t); ok {
			return v
		}
	}
	pr.markMixed(t)
	s := pr.solver()
	lvl := s.level
	type alt struct {
		v  uint64
		m  Model
		bg map[string]*big.Int
	}
	var alts []alt
	mark := tt.Mark()
	emark := 0
	if useMod {
		emark = pr.ev.Mark()
		alts = append(alts, alt{pr.ev.Eval(t), pr.ev.model, pr.ev.big})
	}
	s.Push()
	for _, a := range alts {
		s.Assert(tt.Not(tt.Eq(t, tt.Const(t.sort, a.v))))
	}
	unknown := false
	for {
		r := s.Check()
		if r == Unsat {
			break
		}
		if r == Unknown {
			unknown = true
			break
		}
		m, bg := s.GetModel(tt.syms)
		e := NewEvaluator(m)
		e.big = bg
		v := e.Eval(t)
		alts = append(alts, alt{v, m, bg})
		if len(alts) > maxConcretize {
			s.PopTo(lvl)
			panic(engineAbort{"unsupported", fmt.Sprintf("concretisation of an integer with more than %d feasible values", maxConcretize)})
		}
		s.Assert(tt.Not(tt.Eq(t, tt.Const(t.sort, v))))
	}
	s.PopTo(lvl)
	tt.Rollback(mark)
	if pr.hasMod {
		pr.ev.Rollback(emark)
	}
	_ = emark
	if unknown {
		atomic.AddInt64(&ex.stats.Unknown, 1)
	}
	if len(alts) == 0 {
		panic(pathEnd{"infeasible"})
	}
	sort.Slice(alts[1:], func(i, j int) bool { return alts[1+i].v < alts[1+j].v })
	if len(alts) == 1 && !unknown {
		tt.Eq(t, tt.Const(t.sort, alts[0].v))
		pr.record(Event{alts[0].v, true})
		if !useMod {
			pr.setModel(alts[0].m, alts[0].bg)
		}
		return alts[0].v
	}
	for i := len(alts) - 1; i >= 1; i-- {
		ex.push(pr.w.id, pr.childItem(Event{alts[i].v, false}, alts[i].m, alts[i].bg, false))
	}
	pr.assertFresh(tt.Eq(t, tt.Const(t.sort, alts[0].v)))
	pr.record(Event{alts[0].v, false})
	if !useMod {
		pr.setModel(alts[0].m, alts[0].bg)
	}
	return alts[0].v
}

// concretizeByDomain enumerates the values of a term that depends on one
// byte/bool symbol by evaluating it over the symbol's exact value set.
func (pr *PathRun) concretizeByDomain(t *Term) (res uint64, ok bool) {
	if os.Getenv("GOSYMEX_NODOMAIN") != "" || !unaryOK(t) || pr.pending != nil || pr.mixed[t.supSym.name] {
		return 0, false
	}
	sym := t.supSym
	defer func() {
		if r := recover(); r != nil {
			if r == errNotUnaryEvaluable {
				ok = false
				return
			}
			panic(r)
		}
	}()
	d := pr.domOf(sym)
	pre := map[uint64]*bitset256{}
	var vals []uint64
	for v := uint64(0); v < 256; v++ {
		if !d.has(v) {
			continue
		}
		x := pr.ue.eval(t, v)
		b := pre[x]
		if b == nil {
			b = &bitset256{}
			pre[x] = b
			vals = append(vals, x)
		}
		b.set(v)
	}
	if len(vals) == 0 {
		panic(pathEnd{"infeasible"})
	}
	ex := pr.w.ex
	atomic.AddInt64(&ex.stats.DomainDecisions, 1)
	tt := pr.tt
	mine := pr.ev.Eval(t)
	if len(vals) == 1 {
		tt.Eq(t, tt.Const(t.sort, vals[0]))
		pr.record(Event{vals[0], true})
		return vals[0], true
	}
	sort.Slice(vals, func(i, j int) bool { return vals[i] < vals[j] })
	for i := len(vals) - 1; i >= 0; i-- {
		x := vals[i]
		if x == mine {
			continue
		}
		child := pr.childItem(Event{x, false}, modelWith(pr.ev.model, sym.name, pre[x].first()), pr.ev.big, false)
		child.Dom[sym.name] = pre[x]
		ex.push(pr.w.id, child)
	}
	pr.dom[sym.name] = pre[mine]
	pr.assertFresh(tt.Eq(t, tt.Const(t.sort, mine)))
	pr.record(Event{mine, false})
	return mine, true
}

func (tt *TermTable) Mark() int { return len(tt.terms) }

func (tt *TermTable) Rollback(mark int) {
	for i := mark; i < len(tt.terms); i++ {
		t := tt.terms[i]
		var key termKey
		switch {
		case t.op == OUF:
			continue // never created in scratch mode
		case t.op == OConst && t.big != nil:
			key = termKey{OConst, t.sort, -1, -1, -1, 0, t.name}
		default:
			key = termKey{t.op, t.sort, tid(t.a), tid(t.b), tid(t.c), t.k, t.name}
		}
		delete(tt.index, key)
	}
	tt.terms = tt.terms[:mark]
}

func (e *Evaluator) Mark() int { return 0 }

// Rollback drops memoised results of terms created after the mark was taken;
// ids are reused after a term-table rollback, so the whole memo is cleared.
func (e *Evaluator) Rollback(int) {
	for k := range e.memo {
		delete(e.memo, k)
	}
}

func (pr *PathRun) evalOrZero() *Evaluator {
	if pr.hasMod {
		return pr.ev
	}
	return pr.curEval()
}

func (pr *PathRun) describeInputs(ev *Evaluator) string {
	if ev == nil {
		ev = NewEvaluator(Model{})
	}
	_, pretty := pr.inputVector(ev)
	s := ""
	for i, p := range pretty {
		if i > 0 {
			s += " "
		}
		s += p
	}
	return s
}

// inputVector evaluates the recorded vsym inputs under a model and returns the
// flat replay vector and a readable form.
func (pr *PathRun) inputVector(ev *Evaluator) ([]uint64, []string) {
	var vec []uint64
	var pretty []string
	val := func(v Value) uint64 {
		if t, ok := v.Ref.(*Term); ok {
			return ev.Eval(t)
		}
		return v.Bits
	}
	for _, in := range pr.inputs {
		switch in.kind {
		case "string", "bytes":
			vec = append(vec, uint64(in.n))
			b := make([]byte, 0, in.n)
			for _, v := range in.vals {
				x := val(v)
				vec = append(vec, x)
				b = append(b, byte(x))
			}
			pretty = append(pretty, fmt.Sprintf("%s=%q", in.kind, string(b)))
		case "choice":
			vec = append(vec, uint64(in.n))
			pretty = append(pretty, fmt.Sprintf("choice=%d", in.n))
		default:
			x := val(in.vals[0])
			vec = append(vec, x)
			if in.sort[0] > 0 && in.kind[0] == 'i' {
				pretty = append(pretty, fmt.Sprintf("%s=%d", in.kind, sext64(x, in.sort[0])))
			} else if in.sort[0] == SF64 || in.sort[0] == SF32 {
				pretty = append(pretty, fmt.Sprintf("%s=%v(0x%x)", in.kind, evalFloat(in.sort[0], x), x))
			} else {
				pretty = append(pretty, fmt.Sprintf("%s=%d", in.kind, x))
			}
		}
	}
	return vec, pretty
}
