package main

import (
	"fmt"
	"math/big"
	"os"
	"sort"
	"sync"
	"sync/atomic"
	"time"
)

// Event is one recorded solver-relevant outcome along a path.
type Event struct {
	Val    uint64
	Forced bool // implied by the path condition: no solver level
}

type Item struct {
	Trace []Event
	Model Model
	Big   map[string]*big.Int
	NoMod bool // model not available (after an unknown answer)
}

type Violation struct {
	Harness string   `json:"harness"`
	Kind    string   `json:"kind"` // assert | panic | goroutine-panic | budget | deadlock
	Label   string   `json:"label"`
	Message string   `json:"message"`
	Inputs  []uint64 `json:"inputs"`
	Pretty  []string `json:"pretty"`
	Pos     string   `json:"pos"`
}

type Stats struct {
	Paths        int64 // paths run to an end state
	Completed    int64 // returned normally from the harness
	Pruned       int64 // ended by vassume(false)/infeasible
	Aborted      int64 // left the kernel (unsupported)
	Budget       int64
	Events       int64
	Obligations  int64
	Discharged   int64
	ByEval       int64 // obligations that folded to true by symbolic evaluation (no query needed)
	Unknown      int64
	Steps        int64
	Violations   int64
	PanicsCaught int64
}

// Explorer explores all paths of one harness with a pool of workers.
type Explorer struct {
	eng     *Engine
	harness string
	mu      sync.Mutex
	cond    *sync.Cond
	stacks  [][]*Item // per-worker LIFO
	idle    int
	done    bool
	nwork   int

	stats       Stats
	violations  []Violation
	abortMsgs   map[string]int
	tags        map[string]int64
	funcs       map[string]bool
	samples     []string
	sampleVecs  [][]uint64
	rng         uint64
	maxViol     int
	stepBudget  int
	budgetIsBug bool
	deadline    time.Time
	timedOut    int32
	solverStats struct {
		queries, sat, unsat, unknown, errors int
		time                                time.Duration
	}
}

func (ex *Explorer) push(w int, it *Item) {
	ex.mu.Lock()
	ex.stacks[w] = append(ex.stacks[w], it)
	if ex.idle > 0 {
		ex.cond.Signal()
	}
	ex.mu.Unlock()
}

// pop returns the next item for worker w: own stack top, else steal the
// shallowest item of the fullest other stack.
func (ex *Explorer) pop(w int) *Item {
	ex.mu.Lock()
	defer ex.mu.Unlock()
	for {
		if ex.done {
			return nil
		}
		if n := len(ex.stacks[w]); n > 0 {
			it := ex.stacks[w][n-1]
			ex.stacks[w] = ex.stacks[w][:n-1]
			return it
		}
		best, bn := -1, 0
		for i, s := range ex.stacks {
			if len(s) > bn {
				best, bn = i, len(s)
			}
		}
		if best >= 0 {
			it := ex.stacks[best][0]
			ex.stacks[best] = ex.stacks[best][1:]
			return it
		}
		ex.idle++
		if ex.idle == ex.nwork {
			ex.done = true
			ex.cond.Broadcast()
			return nil
		}
		ex.cond.Wait()
		ex.idle--
	}
}

func (ex *Explorer) Run(nworkers int) {
	ex.nwork = nworkers
	ex.cond = sync.NewCond(&ex.mu)
	ex.stacks = make([][]*Item, nworkers)
	ex.stacks[0] = []*Item{{Model: Model{}}}
	ex.abortMsgs = map[string]int{}
	ex.tags = map[string]int64{}
	ex.funcs = map[string]bool{}
	var wg sync.WaitGroup
	for i := 0; i < nworkers; i++ {
		wg.Add(1)
		go func(i int) {
			defer wg.Done()
			w := &Worker{ex: ex, id: i}
			var err error
			logp := ""
			if ex.eng.smtLog != "" {
				logp = fmt.Sprintf("%s.%s.%d.smt2", ex.eng.smtLog, ex.harness, i)
			}
			w.solver, err = NewSolver(ex.eng.solverBin, ex.eng.solverTimeoutMs, logp)
			if err != nil {
				fmt.Fprintf(os.Stderr, "cannot start solver: %v\n", err)
				os.Exit(3)
			}
			defer w.solver.Close()
			for {
				it := ex.pop(i)
				if it == nil {
					break
				}
				if !ex.deadline.IsZero() && time.Now().After(ex.deadline) {
					atomic.StoreInt32(&ex.timedOut, 1)
					continue // drain
				}
				w.runItem(it)
			}
			ex.mu.Lock()
			ex.solverStats.queries += w.solver.Queries
			ex.solverStats.sat += w.solver.SatCount
			ex.solverStats.unsat += w.solver.Unsats
			ex.solverStats.unknown += w.solver.Unknowns
			ex.solverStats.errors += w.solver.Errors
			ex.solverStats.time += w.solver.Time
			for f := range w.funcs {
				ex.funcs[f] = true
			}
			ex.mu.Unlock()
		}(i)
	}
	wg.Wait()
}

// Worker owns a solver and runs items one at a time.
type Worker struct {
	ex        *Explorer
	id        int
	solver    *Solver
	lastTrace []Event
	funcs     map[string]bool
}

// PathRun is the per-path state shared between the interpreter and the
// exploration machinery.
type PathRun struct {
	w       *Worker
	tt      *TermTable
	prefix  []Event
	trace   []Event
	pos     int
	cp      int // events [0,cp) are already on the solver stack
	ev      *Evaluator
	hasMod  bool
	decided map[int32]bool
	inputs  []inputRec
	tags    []string
}

type inputRec struct {
	kind string
	vals []Value // scalar values (const or term)
	n    int     // for strings: chosen length
	sort []Sort
}

type pathEnd struct{ reason string }

func eventsEqual(a, b Event) bool { return a == b }

func (w *Worker) runItem(it *Item) {
	ex := w.ex
	// common prefix with the solver's current stack
	cp := 0
	for cp < len(it.Trace) && cp < len(w.lastTrace) && it.Trace[cp] == w.lastTrace[cp] {
		cp++
	}
	levels := 0
	for i := 0; i < cp; i++ {
		if !it.Trace[i].Forced {
			levels++
		}
	}
	if os.Getenv("GOSYMEX_NOREUSE") != "" {
		cp, levels = 0, 0
	}
	if w.solver.cmd == nil {
		w.solver.start()
		cp, levels = 0, 0
	}
	w.solver.PopTo(levels)
	pr := &PathRun{w: w, tt: NewTermTable(), prefix: it.Trace, cp: cp, decided: map[int32]bool{}}
	pr.trace = make([]Event, 0, len(it.Trace)+16)
	if !it.NoMod {
		pr.ev = NewEvaluator(it.Model)
		pr.ev.big = it.Big
		pr.hasMod = true
	}
	interp := newInterp(ex.eng, pr)
	interp.stepBudget = ex.stepBudget
	if os.Getenv("GOSYMEX_DEBUGDEFS") != "" {
		fmt.Printf("RUN prefix=%v cp=%d levels=%d last=%v\n", it.Trace, cp, levels, w.lastTrace)
		defer func() {
			if r := recover(); r != nil {
				fmt.Printf("PANIC at pos=%d trace=%v\n", pr.pos, pr.trace)
				panic(r)
			}
		}()
	}
	outcome := interp.runHarness(ex.harness)
	w.lastTrace = pr.trace
	if w.solver.cmd != nil {
		nf := 0
		for _, e := range pr.trace {
			if !e.Forced {
				nf++
			}
		}
		if nf != w.solver.level {
			panic(fmt.Sprintf("solver level %d != non-forced events %d (outcome %s)", w.solver.level, nf, outcome.kind))
		}
	}
	if w.funcs == nil {
		w.funcs = map[string]bool{}
	}
	for f := range interp.entered {
		w.funcs[f.String()] = true
	}
	ex.mu.Lock()
	ex.stats.Paths++
	ex.stats.Steps += int64(interp.steps)
	ex.stats.Events += int64(len(pr.trace) - len(it.Trace))
	switch outcome.kind {
	case "ok":
		ex.stats.Completed++
		pow2 := (ex.stats.Completed & (ex.stats.Completed - 1)) == 0
		if len(ex.samples) < 8 && pow2 {
			ex.samples = append(ex.samples, pr.describeInputs(pr.ev))
		}
		// path witnesses for native validation: powers of two plus a seeded reservoir
		ex.rng = ex.rng*6364136223846793005 + 1442695040888963407
		if pow2 && len(ex.sampleVecs) < 24 {
			vec, _ := pr.inputVector(pr.evalOrZero())
			ex.sampleVecs = append(ex.sampleVecs, vec)
		} else if k := int((ex.rng >> 33) % uint64(ex.stats.Completed)); k < 24 {
			vec, _ := pr.inputVector(pr.evalOrZero())
			if len(ex.sampleVecs) < 48 {
				ex.sampleVecs = append(ex.sampleVecs, vec)
			} else {
				ex.sampleVecs[24+k] = vec
			}
		}
	case "pruned":
		ex.stats.Pruned++
	case "abort":
		ex.stats.Aborted++
		ex.abortMsgs[outcome.msg]++
	case "violation":
		ex.stats.Violations++
		if len(ex.violations) < ex.maxViol {
			ex.violations = append(ex.violations, *outcome.viol)
		}
	}
	for _, t := range pr.tags {
		ex.tags[t]++
	}
	ex.mu.Unlock()
}

func (pr *PathRun) solver() *Solver { return pr.w.solver }

func (pr *PathRun) record(e Event) {
	pr.trace = append(pr.trace, e)
	pr.pos++
}

func (pr *PathRun) inReplay() bool { return pr.pos < len(pr.prefix) }

// inReplayStrict reports whether the path is still strictly inside its prefix
// (work done there was already counted by the parent path).
func (pr *PathRun) inReplayStrict() bool { return pr.pos < len(pr.prefix) }

// assertSide pushes a level and asserts cond (or its negation).
func (pr *PathRun) assertSide(cond *Term, val bool) {
	s := pr.solver()
	r := ""
	if cond != nil {
		r = s.ref(cond)
	}
	s.Push()
	if cond != nil {
		if val {
			s.send("(assert " + r + ")")
		} else {
			s.send("(assert (not " + r + "))")
		}
	}
}

// assertFresh pushes a level and then defines and asserts cond. It is used
// when cond is created for this very event (its id is specific to the
// alternative taken), so its definition must not outlive the level.
func (pr *PathRun) assertFresh(cond *Term) {
	s := pr.solver()
	s.Push()
	s.Assert(cond)
}

func (pr *PathRun) setDecided(cond *Term, val bool) {
	pr.decided[cond.id] = val
	if cond.op == ONot {
		pr.decided[cond.a.id] = !val
	}
}

func (pr *PathRun) lookupDecided(cond *Term) (bool, bool) {
	if v, ok := pr.decided[cond.id]; ok {
		return v, true
	}
	if cond.op == ONot {
		if v, ok := pr.decided[cond.a.id]; ok {
			return !v, true
		}
	}
	return false, false
}

// checkSide asks the solver whether PC && (cond == val) is satisfiable. On
// Sat the model is returned. The solver stack is left unchanged.
func (pr *PathRun) checkSide(cond *Term, val bool) (SatResult, Model, map[string]*big.Int) {
	s := pr.solver()
	lvl := s.level
	pr.assertSide(cond, val)
	r := s.Check()
	var m Model
	var bg map[string]*big.Int
	if r == Sat {
		m, bg = s.GetModel(pr.tt.syms)
	}
	s.PopTo(lvl)
	return r, m, bg
}

func (pr *PathRun) childItem(e Event, m Model, bg map[string]*big.Int, nomod bool) *Item {
	tr := make([]Event, len(pr.trace)+1)
	copy(tr, pr.trace)
	tr[len(pr.trace)] = e
	return &Item{Trace: tr, Model: m, Big: bg, NoMod: nomod}
}

func (pr *PathRun) setModel(m Model, bg map[string]*big.Int) {
	pr.ev = NewEvaluator(m)
	pr.ev.big = bg
	pr.hasMod = true
}

// Decide resolves a symbolic boolean into a concrete one, forking if needed.
func (pr *PathRun) Decide(cond *Term) bool {
	if cond.op == OConst {
		return cond.k != 0
	}
	if v, ok := pr.lookupDecided(cond); ok {
		return v
	}
	if pr.inReplay() {
		e := pr.prefix[pr.pos]
		val := e.Val != 0
		if !e.Forced && pr.pos >= pr.cp {
			pr.assertSide(cond, val)
		}
		pr.record(e)
		pr.setDecided(cond, val)
		return val
	}
	ex := pr.w.ex
	if pr.hasMod {
		mv := pr.ev.EvalBool(cond)
		r, m, bg := pr.checkSide(cond, !mv)
		switch r {
		case Unsat:
			pr.record(Event{b2u(mv), true})
		case Sat:
			ex.push(pr.w.id, pr.childItem(Event{b2u(!mv), false}, m, bg, false))
			pr.assertSide(cond, mv)
			pr.record(Event{b2u(mv), false})
		default:
			atomic.AddInt64(&ex.stats.Unknown, 1)
			ex.push(pr.w.id, pr.childItem(Event{b2u(!mv), false}, nil, nil, true))
			pr.assertSide(cond, mv)
			pr.record(Event{b2u(mv), false})
		}
		pr.setDecided(cond, mv)
		return mv
	}
	// no model: query both sides
	r1, m1, b1 := pr.checkSide(cond, true)
	r0, m0, b0 := pr.checkSide(cond, false)
	if r1 == Unknown {
		atomic.AddInt64(&ex.stats.Unknown, 1)
	}
	if r0 == Unknown {
		atomic.AddInt64(&ex.stats.Unknown, 1)
	}
	switch {
	case r1 == Unsat && r0 == Unsat:
		panic(pathEnd{"infeasible"})
	case r0 == Unsat:
		pr.record(Event{1, true})
		if r1 == Sat {
			pr.setModel(m1, b1)
		}
		pr.setDecided(cond, true)
		return true
	case r1 == Unsat:
		pr.record(Event{0, true})
		if r0 == Sat {
			pr.setModel(m0, b0)
		}
		pr.setDecided(cond, false)
		return false
	}
	// both possible: take true, queue false
	ex.push(pr.w.id, pr.childItem(Event{0, false}, m0, b0, r0 != Sat))
	pr.assertSide(cond, true)
	pr.record(Event{1, false})
	if r1 == Sat {
		pr.setModel(m1, b1)
	}
	pr.setDecided(cond, true)
	return true
}

// Choose forks into n alternatives with no constraint.
func (pr *PathRun) Choose(n int) int {
	if n <= 1 {
		return 0
	}
	if pr.inReplay() {
		e := pr.prefix[pr.pos]
		if pr.pos >= pr.cp {
			pr.assertSide(nil, true)
		}
		pr.record(e)
		return int(e.Val)
	}
	ex := pr.w.ex
	for i := n - 1; i >= 1; i-- {
		var m Model
		var bg map[string]*big.Int
		if pr.hasMod {
			m, bg = pr.ev.model, pr.ev.big
		}
		ex.push(pr.w.id, pr.childItem(Event{uint64(i), false}, m, bg, !pr.hasMod))
	}
	pr.assertSide(nil, true)
	pr.record(Event{0, false})
	return 0
}

// Assume adds cond to the path condition; the path ends if it is infeasible.
func (pr *PathRun) Assume(cond *Term) {
	if cond.op == OConst {
		if cond.k == 0 {
			panic(pathEnd{"assume false"})
		}
		return
	}
	if v, ok := pr.lookupDecided(cond); ok {
		if !v {
			panic(pathEnd{"assume false"})
		}
		return
	}
	if pr.inReplay() {
		e := pr.prefix[pr.pos]
		if pr.pos >= pr.cp {
			pr.assertSide(cond, true)
		}
		pr.record(e)
		pr.setDecided(cond, true)
		return
	}
	pr.assertSide(cond, true)
	pr.record(Event{1, false})
	pr.setDecided(cond, true)
	if pr.hasMod && pr.ev.EvalBool(cond) {
		return
	}
	s := pr.solver()
	r := s.Check()
	switch r {
	case Sat:
		m, bg := s.GetModel(pr.tt.syms)
		pr.setModel(m, bg)
	case Unsat:
		panic(pathEnd{"assume infeasible"})
	default:
		atomic.AddInt64(&pr.w.ex.stats.Unknown, 1)
		pr.hasMod = false
	}
}

// Prove checks that cond holds on every input of the current path. It returns
// true if proven (or concretely true). If it can fail, the returned model
// evaluator describes a counterexample.
func (pr *PathRun) Prove(cond *Term) (bool, *Evaluator) {
	ex := pr.w.ex
	if cond.op == OConst {
		if !pr.inReplayStrict() {
			atomic.AddInt64(&ex.stats.Obligations, 1)
		}
		if cond.k != 0 {
			if !pr.inReplayStrict() {
				atomic.AddInt64(&ex.stats.Discharged, 1)
				atomic.AddInt64(&ex.stats.ByEval, 1)
			}
			return true, nil
		}
		return false, pr.curEval()
	}
	if v, ok := pr.lookupDecided(cond); ok {
		if v {
			return true, nil
		}
		return false, pr.curEval()
	}
	if pr.inReplay() {
		e := pr.prefix[pr.pos]
		pr.record(e)
		pr.setDecided(cond, true)
		return true, nil
	}
	atomic.AddInt64(&ex.stats.Obligations, 1)
	if pr.hasMod && !pr.ev.EvalBool(cond) {
		return false, pr.ev
	}
	r, m, bg := pr.checkSide(cond, false)
	switch r {
	case Unsat:
		atomic.AddInt64(&ex.stats.Discharged, 1)
		pr.record(Event{1, true})
		pr.setDecided(cond, true)
		return true, nil
	case Sat:
		ev := NewEvaluator(m)
		ev.big = bg
		return false, ev
	}
	atomic.AddInt64(&ex.stats.Unknown, 1)
	pr.record(Event{1, true})
	pr.setDecided(cond, true)
	return true, nil
}

func (pr *PathRun) curEval() *Evaluator {
	if pr.hasMod {
		return pr.ev
	}
	s := pr.solver()
	if s.Check() == Sat {
		m, bg := s.GetModel(pr.tt.syms)
		pr.setModel(m, bg)
		return pr.ev
	}
	return NewEvaluator(Model{})
}

const maxConcretize = 260

// Concretize forks over the feasible values of t (a bit-vector term <= 64 bits).
func (pr *PathRun) Concretize(t *Term) uint64 {
	if t.op == OConst {
		return t.k
	}
	tt := pr.tt
	if pr.inReplay() {
		e := pr.prefix[pr.pos]
		if !e.Forced && pr.pos >= pr.cp {
			pr.assertFresh(tt.Eq(t, tt.Const(t.sort, e.Val)))
		} else {
			tt.Eq(t, tt.Const(t.sort, e.Val)) // keep term creation identical
		}
		pr.record(e)
		return e.Val
	}
	ex := pr.w.ex
	s := pr.solver()
	lvl := s.level
	type alt struct {
		v  uint64
		m  Model
		bg map[string]*big.Int
	}
	var alts []alt
	mark := tt.Mark()
	emark := 0
	if pr.hasMod {
		emark = pr.ev.Mark()
		alts = append(alts, alt{pr.ev.Eval(t), pr.ev.model, pr.ev.big})
	}
	s.Push()
	for _, a := range alts {
		s.Assert(tt.Not(tt.Eq(t, tt.Const(t.sort, a.v))))
	}
	unknown := false
	for {
		r := s.Check()
		if r == Unsat {
			break
		}
		if r == Unknown {
			unknown = true
			break
		}
		m, bg := s.GetModel(tt.syms)
		e := NewEvaluator(m)
		e.big = bg
		v := e.Eval(t)
		alts = append(alts, alt{v, m, bg})
		if len(alts) > maxConcretize {
			s.PopTo(lvl)
			panic(engineAbort{"unsupported", fmt.Sprintf("concretisation of an integer with more than %d feasible values", maxConcretize)})
		}
		s.Assert(tt.Not(tt.Eq(t, tt.Const(t.sort, v))))
	}
	s.PopTo(lvl)
	tt.Rollback(mark)
	if pr.hasMod {
		pr.ev.Rollback(emark)
	}
	if unknown {
		atomic.AddInt64(&ex.stats.Unknown, 1)
	}
	if len(alts) == 0 {
		panic(pathEnd{"infeasible"})
	}
	sort.Slice(alts[1:], func(i, j int) bool { return alts[1+i].v < alts[1+j].v })
	if len(alts) == 1 && !unknown {
		tt.Eq(t, tt.Const(t.sort, alts[0].v))
		pr.record(Event{alts[0].v, true})
		if !pr.hasMod {
			pr.setModel(alts[0].m, alts[0].bg)
		}
		return alts[0].v
	}
	for i := len(alts) - 1; i >= 1; i-- {
		ex.push(pr.w.id, pr.childItem(Event{alts[i].v, false}, alts[i].m, alts[i].bg, false))
	}
	pr.assertFresh(tt.Eq(t, tt.Const(t.sort, alts[0].v)))
	pr.record(Event{alts[0].v, false})
	if !pr.hasMod {
		pr.setModel(alts[0].m, alts[0].bg)
	}
	return alts[0].v
}

func (tt *TermTable) Mark() int { return len(tt.terms) }

func (tt *TermTable) Rollback(mark int) {
	for i := mark; i < len(tt.terms); i++ {
		t := tt.terms[i]
		var key termKey
		switch {
		case t.op == OUF:
			continue // never created in scratch mode
		case t.op == OConst && t.big != nil:
			key = termKey{OConst, t.sort, -1, -1, -1, 0, t.name}
		default:
			key = termKey{t.op, t.sort, tid(t.a), tid(t.b), tid(t.c), t.k, t.name}
		}
		delete(tt.index, key)
	}
	tt.terms = tt.terms[:mark]
}

func (e *Evaluator) Mark() int { return 0 }

// Rollback drops memoised results of terms created after the mark was taken;
// ids are reused after a term-table rollback, so the whole memo is cleared.
func (e *Evaluator) Rollback(int) {
	for k := range e.memo {
		delete(e.memo, k)
	}
}

func (pr *PathRun) evalOrZero() *Evaluator {
	if pr.hasMod {
		return pr.ev
	}
	return pr.curEval()
}

func (pr *PathRun) describeInputs(ev *Evaluator) string {
	if ev == nil {
		ev = NewEvaluator(Model{})
	}
	_, pretty := pr.inputVector(ev)
	s := ""
	for i, p := range pretty {
		if i > 0 {
			s += " "
		}
		s += p
	}
	return s
}

// inputVector evaluates the recorded vsym inputs under a model and returns the
// flat replay vector and a readable form.
func (pr *PathRun) inputVector(ev *Evaluator) ([]uint64, []string) {
	var vec []uint64
	var pretty []string
	val := func(v Value) uint64 {
		if t, ok := v.Ref.(*Term); ok {
			return ev.Eval(t)
		}
		return v.Bits
	}
	for _, in := range pr.inputs {
		switch in.kind {
		case "string", "bytes":
			vec = append(vec, uint64(in.n))
			b := make([]byte, 0, in.n)
			for _, v := range in.vals {
				x := val(v)
				vec = append(vec, x)
				b = append(b, byte(x))
			}
			pretty = append(pretty, fmt.Sprintf("%s=%q", in.kind, string(b)))
		case "choice":
			vec = append(vec, uint64(in.n))
			pretty = append(pretty, fmt.Sprintf("choice=%d", in.n))
		default:
			x := val(in.vals[0])
			vec = append(vec, x)
			if in.sort[0] > 0 && in.kind[0] == 'i' {
				pretty = append(pretty, fmt.Sprintf("%s=%d", in.kind, sext64(x, in.sort[0])))
			} else if in.sort[0] == SF64 || in.sort[0] == SF32 {
				pretty = append(pretty, fmt.Sprintf("%s=%v(0x%x)", in.kind, evalFloat(in.sort[0], x), x))
			} else {
				pretty = append(pretty, fmt.Sprintf("%s=%d", in.kind, x))
			}
		}
	}
	return vec, pretty
}
