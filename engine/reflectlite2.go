package main

import (
	"go/token"
	"go/types"
	"strings"
	"sync"

	"golang.org/x/tools/go/ssa"
)

// reflect-lite, part 2: slices, maps, calls (what the Scriggo VM uses for the
// values that have no fast path), and sync.Pool.

// reflBound returns the concrete value of an int argument that must lie in
// [0, max]; ok is false on the paths where it does not.
func (it *Interp) reflBound(v Value, max int) (int, bool) {
	if v.Ref == nil {
		i := int64(v.Bits)
		if i < 0 || i > int64(max) {
			return 0, false
		}
		return int(i), true
	}
	t := v.Ref.(*Term)
	in := it.tt.Cmp(OUle, t, it.tt.Const(64, uint64(max)))
	if !it.pr.Decide(in) {
		return 0, false
	}
	return int(it.pr.Concretize(t)), true
}

func (it *Interp) reflValueType() types.Type {
	return it.eng.pkgs["reflect"].Type("Value").Type()
}

func (it *Interp) reflValueSlice(vals []Value) Value {
	s := it.newSlice(it.reflValueType(), len(vals), len(vals))
	for i, v := range vals {
		s.c[i].storeRaw(v)
	}
	return Value{Ref: s}
}

// reflAssign converts a value of type from to what a variable of type to holds.
func reflAssign(val Value, from, to types.Type) Value {
	if _, isI := to.Underlying().(*types.Interface); isI {
		if _, srcI := from.Underlying().(*types.Interface); !srcI {
			return Value{Ref: &Iface{t: from, v: val}}
		}
	}
	return val
}

func sliceElem(t types.Type) types.Type {
	if s, ok := t.Underlying().(*types.Slice); ok {
		return s.Elem()
	}
	return nil
}

func reflectValueIntrinsics2() map[string]intrinsic {
	return map[string]intrinsic{
		"(reflect.Value).Cap": func(it *Interp, fn *ssa.Function, args []Value) Value {
			rv := it.reflVal(args[0], "Cap")
			switch rv.t.Underlying().(type) {
			case *types.Slice:
				s, _ := rv.cur().Ref.(Slice)
				return Value{Bits: uint64(len(s.c))}
			case *types.Array:
				return Value{Bits: uint64(len(rv.cur().Ref.(*Agg).v))}
			case *types.Chan:
				if c, ok := rv.cur().Ref.(*ChanObj); ok {
					return Value{Bits: uint64(c.cap)}
				}
				return Value{}
			}
			it.reflKindPanic("Cap", rv)
			return Value{}
		},
		"(reflect.Value).Slice": func(it *Interp, fn *ssa.Function, args []Value) Value {
			rv := it.reflVal(args[0], "Slice")
			switch rv.t.Underlying().(type) {
			case *types.Slice:
				s, _ := rv.cur().Ref.(Slice)
				j, okj := it.reflBound(args[2], len(s.c))
				if !okj {
					it.goPanicValue(mkStrIface(it, "reflect.Value.Slice: slice index out of bounds"))
				}
				i, oki := it.reflBound(args[1], j)
				if !oki {
					it.goPanicValue(mkStrIface(it, "reflect.Value.Slice: slice index out of bounds"))
				}
				if s.c == nil {
					return Value{Ref: &ReflVal{t: rv.t, v: Value{}}}
				}
				return Value{Ref: &ReflVal{t: rv.t, v: Value{Ref: Slice{c: s.c[i:], n: j - i}}}}
			case *types.Basic:
				if s, ok := rv.cur().Ref.(*Str); ok {
					j, okj := it.reflBound(args[2], s.Len())
					if !okj {
						it.goPanicValue(mkStrIface(it, "reflect.Value.Slice: string slice index out of bounds"))
					}
					i, oki := it.reflBound(args[1], j)
					if !oki {
						it.goPanicValue(mkStrIface(it, "reflect.Value.Slice: string slice index out of bounds"))
					}
					return Value{Ref: &ReflVal{t: rv.t, v: s.Slice(i, j)}}
				}
			case *types.Array:
				it.unsupported("reflect.Value.Slice of an array")
			}
			it.reflKindPanic("Slice", rv)
			return Value{}
		},
		"(reflect.Value).Slice3": func(it *Interp, fn *ssa.Function, args []Value) Value {
			rv := it.reflVal(args[0], "Slice3")
			switch rv.t.Underlying().(type) {
			case *types.Slice:
				s, _ := rv.cur().Ref.(Slice)
				k, okk := it.reflBound(args[3], len(s.c))
				if !okk {
					it.goPanicValue(mkStrIface(it, "reflect.Value.Slice3: slice index out of bounds"))
				}
				j, okj := it.reflBound(args[2], k)
				if !okj {
					it.goPanicValue(mkStrIface(it, "reflect.Value.Slice3: slice index out of bounds"))
				}
				i, oki := it.reflBound(args[1], j)
				if !oki {
					it.goPanicValue(mkStrIface(it, "reflect.Value.Slice3: slice index out of bounds"))
				}
				if s.c == nil {
					return Value{Ref: &ReflVal{t: rv.t, v: Value{}}}
				}
				return Value{Ref: &ReflVal{t: rv.t, v: Value{Ref: Slice{c: s.c[i:k], n: j - i}}}}
			case *types.Array:
				it.unsupported("reflect.Value.Slice3 of an array")
			}
			it.reflKindPanic("Slice3", rv)
			return Value{}
		},
		"reflect.MakeSlice": func(it *Interp, fn *ssa.Function, args []Value) Value {
			t := it.tokenArg(args[0]).t
			et := sliceElem(t)
			if et == nil {
				it.goPanicValue(mkStrIface(it, "reflect.MakeSlice of non-slice type"))
			}
			intT := types.Typ[types.Int]
			zero := Value{}
			if it.truth(it.binop(token.LSS, intT, args[1], zero, intT)) {
				it.goPanicValue(mkStrIface(it, "reflect.MakeSlice: negative len"))
			}
			if it.truth(it.binop(token.LSS, intT, args[2], zero, intT)) {
				it.goPanicValue(mkStrIface(it, "reflect.MakeSlice: negative cap"))
			}
			if it.truth(it.binop(token.GTR, intT, args[1], args[2], intT)) {
				it.goPanicValue(mkStrIface(it, "reflect.MakeSlice: len > cap"))
			}
			if it.truth(it.binop(token.GTR, intT, args[2], Value{Bits: 1 << 16}, intT)) {
				it.unsupported("reflect.MakeSlice with a capacity over 65536")
			}
			c := it.concInt(args[2], intT)
			n := it.concInt(args[1], intT)
			return Value{Ref: &ReflVal{t: t, v: Value{Ref: it.newSlice(et, int(n), int(c))}}}
		},
		"reflect.Copy": func(it *Interp, fn *ssa.Function, args []Value) Value {
			d := it.reflVal(args[0], "Copy")
			s := it.reflVal(args[1], "Copy")
			dst, _ := d.cur().Ref.(Slice)
			if sliceElem(d.t) == nil {
				it.unsupported("reflect.Copy to a non-slice")
			}
			var vals []Value
			switch x := s.cur().Ref.(type) {
			case Slice:
				for i := 0; i < x.n; i++ {
					vals = append(vals, it.loadCell(x.c[i]))
				}
			case *Str:
				vals = x.Bytes()
			case nil:
			default:
				it.unsupported("reflect.Copy from a non-slice")
			}
			n := min(dst.n, len(vals))
			for i := 0; i < n; i++ {
				it.store(dst.c[i], vals[i])
			}
			return Value{Bits: uint64(n)}
		},
		"reflect.AppendSlice": func(it *Interp, fn *ssa.Function, args []Value) Value {
			d := it.reflVal(args[0], "AppendSlice")
			s := it.reflVal(args[1], "AppendSlice")
			et := sliceElem(d.t)
			if et == nil || sliceElem(s.t) == nil {
				it.unsupported("reflect.AppendSlice of non-slices")
			}
			return Value{Ref: &ReflVal{t: d.t, v: it.appendValues(d.cur(), s.cur(), et)}}
		},
		"reflect.Append": func(it *Interp, fn *ssa.Function, args []Value) Value {
			d := it.reflVal(args[0], "Append")
			et := sliceElem(d.t)
			if et == nil {
				it.unsupported("reflect.Append to a non-slice")
			}
			xs, _ := args[1].Ref.(Slice)
			add := it.newSlice(et, xs.n, xs.n)
			for i := 0; i < xs.n; i++ {
				x := it.reflVal(it.loadCell(xs.c[i]), "Append")
				add.c[i].storeRaw(reflAssign(x.cur(), x.t, et))
			}
			return Value{Ref: &ReflVal{t: d.t, v: it.appendValues(d.cur(), Value{Ref: add}, et)}}
		},
		"(reflect.Value).Call": func(it *Interp, fn *ssa.Function, args []Value) Value {
			return it.reflCall(args[0], args[1], false)
		},
		"(reflect.Value).CallSlice": func(it *Interp, fn *ssa.Function, args []Value) Value {
			return it.reflCall(args[0], args[1], true)
		},
		"(*sync.Pool).Get": func(it *Interp, fn *ssa.Function, args []Value) Value {
			c := it.cellOf(args[0])
			st := c.typ.Underlying().(*types.Struct)
			for i := 0; i < st.NumFields(); i++ {
				if st.Field(i).Name() == "New" {
					f := it.loadCell(c.sub[i])
					if f.Ref == nil {
						return Value{}
					}
					return it.callValue(f, nil, nil, nil)
				}
			}
			it.unsupported("sync.Pool without New field")
			return Value{}
		},
		"(*sync.Pool).Put": noop,
		// sort.Slice: an insertion sort through the less function (the result
		// of a non-stable sort is determined only up to elements that compare
		// equal; ties keep their order here)
		"sort.Slice": func(it *Interp, fn *ssa.Function, args []Value) Value {
			return it.sortSlice(args[0], args[1])
		},
		"sort.SliceStable": func(it *Interp, fn *ssa.Function, args []Value) Value {
			return it.sortSlice(args[0], args[1])
		},
		"reflect.MakeChan": func(it *Interp, fn *ssa.Function, args []Value) Value {
			t := it.tokenArg(args[0]).t
			if _, ok := t.Underlying().(*types.Chan); !ok {
				it.goPanicValue(mkStrIface(it, "reflect.MakeChan of non-chan type"))
			}
			intT := types.Typ[types.Int]
			if it.truth(it.binop(token.LSS, intT, args[1], Value{}, intT)) {
				it.goPanicValue(mkStrIface(it, "reflect.MakeChan: negative buffer size"))
			}
			if it.truth(it.binop(token.GTR, intT, args[1], Value{Bits: 1 << 16}, intT)) {
				it.unsupported("reflect.MakeChan with a buffer over 65536")
			}
			n := it.concInt(args[1], intT)
			return Value{Ref: &ReflVal{t: t, v: Value{Ref: &ChanObj{cap: int(n), epoch: it.epoch}}}}
		},
		"(reflect.Value).Close": func(it *Interp, fn *ssa.Function, args []Value) Value {
			rv := it.reflVal(args[0], "Close")
			if _, ok := rv.t.Underlying().(*types.Chan); !ok {
				it.reflKindPanic("Close", rv)
			}
			c, _ := rv.cur().Ref.(*ChanObj)
			if c == nil {
				it.goPanicValue(it.errorString("close of nil channel"))
			}
			if c.closed {
				it.goPanicValue(it.errorString("close of closed channel"))
			}
			c.closed = true
			return Value{}
		},
		"(reflect.Value).Send": func(it *Interp, fn *ssa.Function, args []Value) Value {
			rv := it.reflVal(args[0], "Send")
			ct, ok := rv.t.Underlying().(*types.Chan)
			if !ok {
				it.reflKindPanic("Send", rv)
			}
			x := it.reflVal(args[1], "Send")
			if c, _ := rv.cur().Ref.(*ChanObj); c != nil && !c.closed && len(c.q) >= c.cap {
				it.unsupported("send on a full channel (would block; goroutines are sequentialised)")
			}
			it.send(rv.cur(), reflAssign(x.cur(), x.t, ct.Elem()))
			return Value{}
		},
		"(reflect.Value).Recv": func(it *Interp, fn *ssa.Function, args []Value) Value {
			rv := it.reflVal(args[0], "Recv")
			ct, ok := rv.t.Underlying().(*types.Chan)
			if !ok {
				it.reflKindPanic("Recv", rv)
			}
			tp := it.recv(rv.cur(), true, rv.t).Ref.(Tuple)
			return Value{Ref: Tuple{Value{Ref: &ReflVal{t: ct.Elem(), v: tp[0]}}, tp[1]}}
		},
		"reflect.MakeMap": func(it *Interp, fn *ssa.Function, args []Value) Value {
			return it.reflMakeMap(args[0])
		},
		"reflect.MakeMapWithSize": func(it *Interp, fn *ssa.Function, args []Value) Value {
			return it.reflMakeMap(args[0])
		},
		"(reflect.Value).MapIndex": func(it *Interp, fn *ssa.Function, args []Value) Value {
			rv := it.reflVal(args[0], "MapIndex")
			mt, ok := rv.t.Underlying().(*types.Map)
			if !ok {
				it.reflKindPanic("MapIndex", rv)
			}
			k := it.reflVal(args[1], "MapIndex")
			m, _ := rv.cur().Ref.(*MapObj)
			if m == nil {
				return Value{}
			}
			if i := it.mapFind(m, reflAssign(k.cur(), k.t, mt.Key())); i >= 0 {
				return Value{Ref: &ReflVal{t: mt.Elem(), v: m.vals[i]}}
			}
			return Value{}
		},
		"(reflect.Value).SetMapIndex": func(it *Interp, fn *ssa.Function, args []Value) Value {
			rv := it.reflVal(args[0], "SetMapIndex")
			mt, ok := rv.t.Underlying().(*types.Map)
			if !ok {
				it.reflKindPanic("SetMapIndex", rv)
			}
			k := it.reflVal(args[1], "SetMapIndex")
			key := reflAssign(k.cur(), k.t, mt.Key())
			if !reflValid(args[2]) {
				m, _ := rv.cur().Ref.(*MapObj)
				if m == nil {
					return Value{}
				}
				if m.epoch != it.epoch {
					it.unsupported("delete from a frozen (package-level) map")
				}
				if i := it.mapFind(m, key); i >= 0 {
					m.keys = append(m.keys[:i:i], m.keys[i+1:]...)
					m.vals = append(m.vals[:i:i], m.vals[i+1:]...)
				}
				return Value{}
			}
			e := it.reflVal(args[2], "SetMapIndex")
			it.mapUpdate(rv.cur(), key, reflAssign(e.cur(), e.t, mt.Elem()))
			return Value{}
		},
		"(reflect.Value).MapRange": func(it *Interp, fn *ssa.Function, args []Value) Value {
			rv := it.reflVal(args[0], "MapRange")
			mt, ok := rv.t.Underlying().(*types.Map)
			if !ok {
				it.reflKindPanic("MapRange", rv)
			}
			m, _ := rv.cur().Ref.(*MapObj)
			if m == nil {
				m = &MapObj{kt: mt.Key(), vt: mt.Elem()}
			}
			keys := append([]Value(nil), m.keys...)
			if it.mapOrder && len(keys) > 1 {
				for i := 0; i < len(keys)-1; i++ {
					j := i + it.pr.Choose(len(keys)-i)
					keys[i], keys[j] = keys[j], keys[i]
				}
			}
			return Value{Ref: &reflMapIter{m: m, keys: keys, idx: -1, mt: mt}}
		},
		"(*reflect.MapIter).Next": func(it *Interp, fn *ssa.Function, args []Value) Value {
			mi := args[0].Ref.(*reflMapIter)
			for mi.idx+1 < len(mi.keys) {
				mi.idx++
				k := mi.keys[mi.idx]
				for j, mk := range mi.m.keys {
					if mk.Ref == k.Ref && mk.Bits == k.Bits || it.concreteEq(mi.m.kt, mk, k) {
						mi.cur = j
						return Value{Bits: 1}
					}
				}
			}
			mi.idx = len(mi.keys)
			return Value{}
		},
		"(*reflect.MapIter).Key": func(it *Interp, fn *ssa.Function, args []Value) Value {
			mi := args[0].Ref.(*reflMapIter)
			if mi.idx < 0 || mi.idx >= len(mi.keys) {
				it.goPanicValue(mkStrIface(it, "MapIter.Key called before Next"))
			}
			return Value{Ref: &ReflVal{t: mi.mt.Key(), v: mi.keys[mi.idx]}}
		},
		"(*reflect.MapIter).Value": func(it *Interp, fn *ssa.Function, args []Value) Value {
			mi := args[0].Ref.(*reflMapIter)
			if mi.idx < 0 || mi.idx >= len(mi.keys) {
				it.goPanicValue(mkStrIface(it, "MapIter.Value called before Next"))
			}
			return Value{Ref: &ReflVal{t: mi.mt.Elem(), v: mi.m.vals[mi.cur]}}
		},
		"(reflect.Value).Convert": func(it *Interp, fn *ssa.Function, args []Value) Value {
			rv := it.reflVal(args[0], "Convert")
			to := it.tokenArg(args[1]).t
			if types.Identical(rv.t.Underlying(), to.Underlying()) {
				return Value{Ref: &ReflVal{t: to, v: rv.cur()}}
			}
			fb, fok := rv.t.Underlying().(*types.Basic)
			tb, tok := to.Underlying().(*types.Basic)
			if fok && tok && fb.Info()&types.IsNumeric != 0 && tb.Info()&types.IsNumeric != 0 &&
				fb.Info()&types.IsComplex == 0 && tb.Info()&types.IsComplex == 0 {
				return Value{Ref: &ReflVal{t: to, v: it.convert(rv.cur(), rv.t, to)}}
			}
			it.unsupported("reflect.Value.Convert from " + typeStr(rv.t) + " to " + typeStr(to))
			return Value{}
		},
	}
}

type reflMapIter struct {
	m    *MapObj
	keys []Value
	idx  int
	cur  int
	mt   *types.Map
}

func (it *Interp) reflMakeMap(tv Value) Value {
	t := it.tokenArg(tv).t
	mt, ok := t.Underlying().(*types.Map)
	if !ok {
		it.goPanicValue(mkStrIface(it, "reflect.MakeMapWithSize of non-map type"))
	}
	return Value{Ref: &ReflVal{t: t, v: Value{Ref: &MapObj{kt: mt.Key(), vt: mt.Elem(), epoch: it.epoch}}}}
}

// appendValues is append(dst, src...) with Go's growth left abstract: when
// the elements do not fit, the new capacity is exactly what is needed (code
// that depends on the growth policy is outside the model).
func (it *Interp) appendValues(dstv, srcv Value, et types.Type) Value {
	dst, _ := dstv.Ref.(Slice)
	var add []Value
	switch x := srcv.Ref.(type) {
	case Slice:
		for i := 0; i < x.n; i++ {
			add = append(add, it.loadCell(x.c[i]))
		}
	case *Str:
		add = x.Bytes()
	}
	if len(add) == 0 {
		return dstv
	}
	need := dst.n + len(add)
	if need <= len(dst.c) {
		for i, v := range add {
			it.store(dst.c[dst.n+i], v)
		}
		return Value{Ref: Slice{c: dst.c, n: need}}
	}
	newcap := max(len(dst.c)*2, need, 4)
	ns := it.newSlice(et, need, newcap)
	for i := 0; i < dst.n; i++ {
		ns.c[i].storeRaw(it.loadCell(dst.c[i]))
	}
	for i, v := range add {
		ns.c[dst.n+i].storeRaw(v)
	}
	return Value{Ref: ns}
}

// reflCall is reflect.Value.Call / CallSlice on a function value of the
// program under analysis.
func (it *Interp) reflCall(fv, argv Value, callSlice bool) Value {
	rv := it.reflVal(fv, "Call")
	sig, ok := rv.t.Underlying().(*types.Signature)
	if !ok {
		it.reflKindPanic("Call", rv)
	}
	f := rv.cur()
	if f.Ref == nil {
		it.goPanicValue(mkStrIface(it, "reflect: call of nil function"))
	}
	switch f.Ref.(type) {
	case *ssa.Function, *Closure:
	default:
		it.unsupported("reflect.Value.Call of a function value the engine cannot run")
	}
	if sig.Variadic() && !callSlice {
		it.unsupported("reflect.Value.Call of a variadic function")
	}
	as, _ := argv.Ref.(Slice)
	np := sig.Params().Len()
	if as.n != np {
		if as.n < np {
			it.goPanicValue(mkStrIface(it, "reflect: Call with too few input arguments"))
		}
		it.goPanicValue(mkStrIface(it, "reflect: Call with too many input arguments"))
	}
	args := make([]Value, np)
	for i := 0; i < np; i++ {
		a := it.loadCell(as.c[i])
		if !reflValid(a) {
			it.goPanicValue(mkStrIface(it, "reflect: Call using zero Value argument"))
		}
		x := a.Ref.(*ReflVal)
		args[i] = reflAssign(x.cur(), x.t, sig.Params().At(i).Type())
	}
	ret := it.callValue(f, args, nil, nil)
	nr := sig.Results().Len()
	outs := make([]Value, nr)
	switch nr {
	case 0:
	case 1:
		outs[0] = Value{Ref: &ReflVal{t: sig.Results().At(0).Type(), v: ret}}
	default:
		tp := ret.Ref.(Tuple)
		for i := range outs {
			outs[i] = Value{Ref: &ReflVal{t: sig.Results().At(i).Type(), v: tp[i]}}
		}
	}
	return it.reflValueSlice(outs)
}

// reflectOutsideModel reports whether fn is an exported entry point of package
// reflect that operates on reflect.Value and has no model: running its real
// body on the model's representation would be meaningless.
func reflectOutsideModel(fn *ssa.Function) bool {
	if fn.Pkg == nil || fn.Pkg.Pkg.Path() != "reflect" || fn.Object() == nil || !fn.Object().Exported() {
		return false
	}
	if recv := fn.Signature.Recv(); recv != nil {
		s := recv.Type().String()
		return s == "reflect.Value" || s == "*reflect.MapIter" || s == "*reflect.Value"
	}
	mentions := func(tp *types.Tuple) bool {
		for i := 0; i < tp.Len(); i++ {
			if strings.Contains(tp.At(i).Type().String(), "reflect.Value") {
				return true
			}
		}
		return false
	}
	return mentions(fn.Signature.Params()) || mentions(fn.Signature.Results())
}

// reflValueEqual is == on two reflect.Value structs (as a map key, say): equal
// when both are the zero Value, or both hold the same pointer-shaped value of
// the same type. For other kinds reflect.ValueOf boxes a fresh copy and the
// result depends on allocation: outside the model.
func (it *Interp) reflValueEqual(x, y Value) Value {
	xv, xok := x.Ref.(*ReflVal)
	yv, yok := y.Ref.(*ReflVal)
	if !xok || !yok {
		return Value{Bits: b2u(!xok && !yok)}
	}
	if !types.Identical(xv.t, yv.t) {
		return Value{}
	}
	switch xv.t.Underlying().(type) {
	case *types.Signature, *types.Pointer, *types.Map, *types.Chan:
		return Value{Bits: b2u(xv.cur().Ref == yv.cur().Ref)}
	}
	it.unsupported("== on reflect.Value of kind " + typeStr(xv.t.Underlying()))
	return Value{}
}

var typesPkgs sync.Map

// typesPackage returns a go/types package for a package path (the loaded one
// when there is one).
func (eng *Engine) typesPackage(path string) *types.Package {
	if p, ok := eng.pkgs[path]; ok {
		return p.Pkg
	}
	if p, ok := typesPkgs.Load(path); ok {
		return p.(*types.Package)
	}
	name := path
	if i := strings.LastIndex(path, "/"); i >= 0 {
		name = path[i+1:]
	}
	p, _ := typesPkgs.LoadOrStore(path, types.NewPackage(path, name))
	return p.(*types.Package)
}

func (it *Interp) sortSlice(x, less Value) Value {
	ifc, _ := x.Ref.(*Iface)
	if ifc == nil {
		it.goPanicValue(mkStrIface(it, "reflect: call of Swapper on zero Value"))
	}
	sl, ok := ifc.v.Ref.(Slice)
	if !ok {
		if ifc.v.Ref == nil {
			return Value{}
		}
		it.unsupported("sort.Slice of a non-slice")
	}
	for i := 1; i < sl.n; i++ {
		for j := i; j > 0; j-- {
			r := it.callValue(less, []Value{{Bits: uint64(j)}, {Bits: uint64(j - 1)}}, nil, nil)
			if !it.truth(r) {
				break
			}
			a, b := it.loadCell(sl.c[j]), it.loadCell(sl.c[j-1])
			it.store(sl.c[j], b)
			it.store(sl.c[j-1], a)
		}
	}
	return Value{}
}
