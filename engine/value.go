package main

import (
	"fmt"
	"go/types"
	"strings"

	"golang.org/x/tools/go/ssa"
)

// Value is the engine's representation of a Go value held in an SSA register.
// Scalars (bool, integers, floats): ref == nil means concrete with the bits in
// Bits (integers zero-extended to their width); ref == *Term means symbolic.
// Other kinds keep a reference; a nil ref is the nil pointer / slice / map /
// func / chan / interface. Register values are immutable.
type Value struct {
	Bits uint64
	Ref  any
}

type poisonT struct{ why string }

// Str is a string value: concrete-length, bytes possibly symbolic.
type Str struct {
	s   string  // valid when sym == nil
	sym []Value // per-byte values (const or *Term of sort 8) when any byte is symbolic
}

var emptyStr = &Str{}

func (s *Str) Len() int {
	if s.sym != nil {
		return len(s.sym)
	}
	return len(s.s)
}

func (s *Str) At(i int) Value {
	if s.sym != nil {
		return s.sym[i]
	}
	return Value{Bits: uint64(s.s[i])}
}

func (s *Str) Concrete() bool { return s.sym == nil }

func mkStr(s string) Value {
	if s == "" {
		return Value{Ref: emptyStr}
	}
	return Value{Ref: &Str{s: s}}
}

func mkStrBytes(bs []Value) Value {
	if len(bs) == 0 {
		return Value{Ref: emptyStr}
	}
	conc := true
	for _, b := range bs {
		if b.Ref != nil {
			conc = false
			break
		}
	}
	if conc {
		var sb strings.Builder
		for _, b := range bs {
			sb.WriteByte(byte(b.Bits))
		}
		return Value{Ref: &Str{s: sb.String()}}
	}
	return Value{Ref: &Str{sym: bs}}
}

func (s *Str) Slice(lo, hi int) Value {
	if lo == 0 && hi == s.Len() {
		return Value{Ref: s}
	}
	if s.sym == nil {
		return mkStr(s.s[lo:hi])
	}
	return mkStrBytes(s.sym[lo:hi:hi])
}

func (s *Str) Bytes() []Value {
	if s.sym != nil {
		return s.sym
	}
	out := make([]Value, len(s.s))
	for i := 0; i < len(s.s); i++ {
		out[i] = Value{Bits: uint64(s.s[i])}
	}
	return out
}

// Cell is a unit of addressable memory. Aggregates (structs, arrays) have
// sub-cells; everything else is a leaf holding a Value.
type Cell struct {
	v     Value
	sub   []*Cell
	agg   bool
	epoch int32
	typ   types.Type // static type of the cell (for aggregates and debugging)
}

// Agg is an immutable struct or array value in a register.
type Agg struct {
	v []Value
}

// Slice value. c spans the capacity; n is the length.
type Slice struct {
	c []*Cell
	n int
}

type Iface struct {
	t types.Type
	v Value
}

type Closure struct {
	fn   *ssa.Function
	bind []Value
}

type MapObj struct {
	keys  []Value
	vals  []Value
	kt    types.Type
	vt    types.Type
	epoch int32
}

type ChanObj struct {
	q      []Value
	closed bool
	cap    int
	epoch  int32
}

type Tuple []Value

type RangeIter struct {
	str  *Str
	pos  int
	m    *MapObj
	keys []Value // snapshot of keys for map iteration
	idx  int
}

// typeToken is a reflect.Type value in the reflect-lite model.
type typeToken struct {
	t types.Type
}

func isScalar(t types.Type) bool {
	if b, ok := t.Underlying().(*types.Basic); ok {
		return b.Info()&(types.IsBoolean|types.IsInteger|types.IsFloat) != 0 || b.Kind() == types.UnsafePointer
	}
	return false
}

// scalarSort returns the term sort and signedness of a scalar Go type.
func scalarSort(t types.Type) (Sort, bool) {
	b, ok := t.Underlying().(*types.Basic)
	if !ok {
		panic(fmt.Sprintf("scalarSort: not basic: %v", t))
	}
	switch b.Kind() {
	case types.Bool, types.UntypedBool:
		return SBool, false
	case types.Int8:
		return 8, true
	case types.Int16:
		return 16, true
	case types.Int32, types.UntypedRune:
		return 32, true
	case types.Int64, types.Int, types.UntypedInt:
		return 64, true
	case types.Uint8:
		return 8, false
	case types.Uint16:
		return 16, false
	case types.Uint32:
		return 32, false
	case types.Uint64, types.Uint, types.Uintptr:
		return 64, false
	case types.Float32:
		return SF32, true
	case types.Float64, types.UntypedFloat:
		return SF64, true
	}
	panic(fmt.Sprintf("scalarSort: unsupported basic kind %v", b))
}

func zeroValue(t types.Type) Value {
	if isReflectValueType(t) {
		return Value{} // the zero reflect.Value: opaque, invalid
	}
	switch u := t.Underlying().(type) {
	case *types.Basic:
		if u.Info()&types.IsString != 0 {
			return Value{Ref: emptyStr}
		}
		return Value{}
	case *types.Struct:
		a := &Agg{v: make([]Value, u.NumFields())}
		for i := range a.v {
			a.v[i] = zeroValue(u.Field(i).Type())
		}
		return Value{Ref: a}
	case *types.Array:
		n := int(u.Len())
		a := &Agg{v: make([]Value, n)}
		if n > 0 {
			z := zeroValue(u.Elem())
			for i := range a.v {
				a.v[i] = z
			}
		}
		return Value{Ref: a}
	case *types.Tuple:
		tp := make(Tuple, u.Len())
		for i := range tp {
			tp[i] = zeroValue(u.At(i).Type())
		}
		return Value{Ref: tp}
	}
	return Value{}
}

func newCell(t types.Type, epoch int32) *Cell {
	if isReflectValueType(t) {
		return &Cell{epoch: epoch, typ: t}
	}
	switch u := t.Underlying().(type) {
	case *types.Struct:
		c := &Cell{agg: true, epoch: epoch, typ: t, sub: make([]*Cell, u.NumFields())}
		for i := range c.sub {
			c.sub[i] = newCell(u.Field(i).Type(), epoch)
		}
		return c
	case *types.Array:
		n := int(u.Len())
		c := &Cell{agg: true, epoch: epoch, typ: t, sub: make([]*Cell, n)}
		for i := range c.sub {
			c.sub[i] = newCell(u.Elem(), epoch)
		}
		return c
	}
	return &Cell{v: zeroValue(t), epoch: epoch, typ: t}
}

func (c *Cell) load() Value {
	if !c.agg {
		return c.v
	}
	a := &Agg{v: make([]Value, len(c.sub))}
	for i, s := range c.sub {
		a.v[i] = s.load()
	}
	return Value{Ref: a}
}

func (it *Interp) store(c *Cell, v Value) {
	if c.epoch != it.epoch {
		if lc := it.localCopyOf(c); lc != nil {
			lc.storeRaw(v)
			return
		}
		if c.epoch == 0 && !it.initMode {
			// heap memory allocated during package initialisation and shared by
			// all paths: the path gets a private overlay (copy on write)
			it.cowStore(c, v)
			return
		}
		it.unsupported("store to frozen (package-level, initialised) memory of type " + typeStr(c.typ))
	}
	c.storeRaw(v)
}

func (it *Interp) cowStore(c *Cell, v Value) {
	if !c.agg {
		if it.cow == nil {
			it.cow = map[*Cell]Value{}
		}
		it.cow[c] = v
		return
	}
	a, ok := v.Ref.(*Agg)
	if !ok {
		if p, isP := v.Ref.(*poisonT); isP {
			for _, s := range c.sub {
				it.cowStore(s, Value{Ref: p})
			}
			return
		}
		panic(fmt.Sprintf("store: aggregate cell of %v gets non-aggregate %T", c.typ, v.Ref))
	}
	for i, s := range c.sub {
		it.cowStore(s, a.v[i])
	}
}

// loadCell reads a cell through the path's copy-on-write overlay.
func (it *Interp) loadCell(c *Cell) Value {
	if it.cow == nil || c.epoch != 0 {
		return c.load()
	}
	if !c.agg {
		if v, ok := it.cow[c]; ok {
			return v
		}
		return c.v
	}
	a := &Agg{v: make([]Value, len(c.sub))}
	for i, s := range c.sub {
		a.v[i] = it.loadCell(s)
	}
	return Value{Ref: a}
}

// ---- path-local copies of package-level variables ----
//
// Globals are initialised once and shared (frozen) between paths. A path that
// assigns to a global (or to a field/element of one) gets its own copy of that
// variable; later accesses through the global on the same path see the copy.
// Reference-typed contents (slices, maps) of the initial value stay shared and
// frozen.

type cellOwner struct {
	g    *ssa.Global
	path []int
}

func (eng *Engine) ownerOf(c *Cell) (cellOwner, bool) {
	eng.globalsMu.Lock()
	defer eng.globalsMu.Unlock()
	if eng.owners == nil || eng.ownersN != len(eng.globals) {
		eng.owners = map[*Cell]cellOwner{}
		var walk func(g *ssa.Global, c *Cell, path []int)
		walk = func(g *ssa.Global, c *Cell, path []int) {
			eng.owners[c] = cellOwner{g, append([]int(nil), path...)}
			if len(c.sub) > 4096 {
				return // very large tables are read-only in practice
			}
			for i, s := range c.sub {
				walk(g, s, append(path, i))
			}
		}
		for g, c := range eng.globals {
			walk(g, c, nil)
		}
		eng.ownersN = len(eng.globals)
	}
	o, ok := eng.owners[c]
	return o, ok
}

func cloneCell(c *Cell, epoch int32) *Cell {
	n := &Cell{v: c.v, agg: c.agg, epoch: epoch, typ: c.typ}
	if c.sub != nil {
		n.sub = make([]*Cell, len(c.sub))
		for i, s := range c.sub {
			n.sub[i] = cloneCell(s, epoch)
		}
	}
	return n
}

func (it *Interp) localCopyOf(c *Cell) *Cell {
	if c.epoch != 0 || it.initMode {
		return nil
	}
	o, ok := it.eng.ownerOf(c)
	if !ok {
		return nil
	}
	if it.localGlobals == nil {
		it.localGlobals = map[*ssa.Global]*Cell{}
	}
	root := it.localGlobals[o.g]
	if root == nil {
		it.eng.globalsMu.Lock()
		frozen := it.eng.globals[o.g]
		it.eng.globalsMu.Unlock()
		root = cloneCell(frozen, it.epoch)
		it.localGlobals[o.g] = root
	}
	for _, i := range o.path {
		root = root.sub[i]
	}
	return root
}

func (c *Cell) storeRaw(v Value) {
	if !c.agg {
		c.v = v
		return
	}
	a, ok := v.Ref.(*Agg)
	if !ok {
		if p, isP := v.Ref.(*poisonT); isP {
			for _, s := range c.sub {
				s.storeRaw(Value{Ref: p})
			}
			return
		}
		panic(fmt.Sprintf("store: aggregate cell of %v gets non-aggregate %T", c.typ, v.Ref))
	}
	for i, s := range c.sub {
		s.storeRaw(a.v[i])
	}
}

func typeStr(t types.Type) string {
	if t == nil {
		return "?"
	}
	return types.TypeString(t, nil)
}

func isNil(v Value) bool { return v.Ref == nil }
