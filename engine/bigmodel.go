package main

import (
	"fmt"
	"go/types"
	"math/big"
	"sync/atomic"

	"golang.org/x/tools/go/ssa"
)

// math/big.Int is modelled as a signed two's complement bit-vector of bigW
// bits. Every value carries a static bound on its bit length; an operation
// whose result might not fit ends the path as "left the kernel", so within
// the kernel the model is exact. big.Float and big.Rat are not modelled.

const bigW = Sort(192)

type bigVal struct {
	t    *Term    // path-local term (nil for init-time constants)
	c    *big.Int // init-time constant
	bits int      // bound on the bit length of the absolute value, plus sign
}

func (it *Interp) bigGet(p Value) (*Term, int) {
	c := it.cellOf(p)
	if it.bigs != nil {
		if v, ok := it.bigs[c]; ok {
			return v.t, v.bits
		}
	}
	it.eng.bigMu.Lock()
	v, ok := it.eng.bigInit[c]
	it.eng.bigMu.Unlock()
	if ok {
		return it.tt.BigConst(bigW, new(big.Int).Set(v.c)), v.bits
	}
	return it.tt.BigConst(bigW, big.NewInt(0)), 1
}

func (it *Interp) bigSet(p Value, t *Term, bits int) {
	if bits > int(bigW)-2 {
		it.unsupported(fmt.Sprintf("math/big model: a result may need more than %d bits", int(bigW)-2))
	}
	c := it.cellOf(p)
	if it.initMode {
		if t.op != OConst {
			it.unsupported("math/big model: symbolic value during package initialisation")
		}
		v := bigSigned(constBig(t), bigW)
		it.eng.bigMu.Lock()
		if it.eng.bigInit == nil {
			it.eng.bigInit = map[*Cell]bigVal{}
		}
		it.eng.bigInit[c] = bigVal{c: v, bits: bits}
		it.eng.bigMu.Unlock()
		return
	}
	if it.bigs == nil {
		it.bigs = map[*Cell]bigVal{}
	}
	it.bigs[c] = bigVal{t: t, bits: bits}
}

func (it *Interp) newBigCell() Value {
	bp := it.eng.pkgs["math/big"]
	return Value{Ref: newCell(bp.Type("Int").Type(), it.epoch)}
}

func (it *Interp) sext64ToBig(v Value, signed bool) *Term {
	t := it.term(v, 64)
	if signed {
		return it.tt.Sext(t, bigW)
	}
	return it.tt.Zext(t, bigW)
}

func maxInt(a, b int) int {
	if a > b {
		return a
	}
	return b
}

func (it *Interp) bigBool(t *Term) Value { return fromTerm(t) }

func bigIntrinsics() map[string]intrinsic {
	// narrow computes op at the smallest width that holds operands and result
	// exactly and sign-extends to the model width: the same value, but a far
	// smaller multiplier or divider for the solver.
	narrow := func(it *Interp, op Op, x, y *Term, bits int) *Term {
		w := Sort(bits + 1)
		if w >= bigW {
			return it.tt.Bin(op, x, y)
		}
		xn, yn := it.tt.Extract(x, int(w)-1, 0), it.tt.Extract(y, int(w)-1, 0)
		return it.tt.Sext(it.tt.Bin(op, xn, yn), bigW)
	}
	bin := func(op Op, bound func(a, b int) int) intrinsic {
		return func(it *Interp, fn *ssa.Function, args []Value) Value {
			x, xb := it.bigGet(args[1])
			y, yb := it.bigGet(args[2])
			rb := bound(xb, yb)
			if op == OMul && rb <= int(bigW)-2 {
				it.bigSet(args[0], narrow(it, op, x, y, rb), rb)
				return args[0]
			}
			it.bigSet(args[0], it.tt.Bin(op, x, y), rb)
			return args[0]
		}
	}
	divLike := func(op Op) intrinsic {
		return func(it *Interp, fn *ssa.Function, args []Value) Value {
			x, xb := it.bigGet(args[1])
			y, yb := it.bigGet(args[2])
			zero := it.tt.Eq(y, it.tt.BigConst(bigW, big.NewInt(0)))
			if it.truth(fromTerm(zero)) {
				it.goPanicValue(mkStrIface(it, "division by zero"))
			}
			// Lemma (assumed at 64 bits, solver-checked at 8 and 12 bits by the C02
			// harness vh_c02_divlemma): truncated division and remainder commute
			// with sign extension, except for MinInt / -1 whose quotient does not
			// fit: sdiv_W(sext a, sext b) = sext(sdiv_64(a, b)). A divider of the
			// model width against a 64-bit one is beyond every installed solver.
			if a64, b64 := from64(x), from64(y); a64 != nil && b64 != nil {
				tt := it.tt
				minCase := tt.And(tt.Eq(a64, tt.Const(64, 1<<63)), tt.Eq(b64, tt.Const(64, ^uint64(0))))
				if it.truth(fromTerm(minCase)) {
					if op == OSDiv {
						it.bigSet(args[0], tt.BigConst(bigW, new(big.Int).Lsh(big.NewInt(1), 63)), 65)
					} else {
						it.bigSet(args[0], tt.BigConst(bigW, big.NewInt(0)), 1)
					}
					return args[0]
				}
				it.bigSet(args[0], tt.Sext(tt.Bin(op, a64, b64), bigW), 65)
				return args[0]
			}
			it.bigSet(args[0], narrow(it, op, x, y, maxInt(xb, yb)+1), xb+1)
			return args[0]
		}
	}
	zeroBig := func(it *Interp) *Term { return it.tt.BigConst(bigW, big.NewInt(0)) }
	return map[string]intrinsic{
		"math/big.NewInt": func(it *Interp, fn *ssa.Function, args []Value) Value {
			p := it.newBigCell()
			it.bigSet(p, it.sext64ToBig(args[0], true), 65)
			return p
		},
		"(*math/big.Int).SetInt64": func(it *Interp, fn *ssa.Function, args []Value) Value {
			it.bigSet(args[0], it.sext64ToBig(args[1], true), 65)
			return args[0]
		},
		"(*math/big.Int).SetUint64": func(it *Interp, fn *ssa.Function, args []Value) Value {
			it.bigSet(args[0], it.sext64ToBig(args[1], false), 65)
			return args[0]
		},
		"(*math/big.Int).Set": func(it *Interp, fn *ssa.Function, args []Value) Value {
			x, xb := it.bigGet(args[1])
			it.bigSet(args[0], x, xb)
			return args[0]
		},
		"(*math/big.Int).Add": bin(OAdd, func(a, b int) int { return maxInt(a, b) + 1 }),
		"(*math/big.Int).Sub": bin(OSub, func(a, b int) int { return maxInt(a, b) + 1 }),
		"(*math/big.Int).Mul": bin(OMul, func(a, b int) int { return a + b }),
		"(*math/big.Int).And": bin(OBAnd, func(a, b int) int { return maxInt(a, b) + 1 }),
		"(*math/big.Int).Or":  bin(OBOr, func(a, b int) int { return maxInt(a, b) + 1 }),
		"(*math/big.Int).Xor": bin(OBXor, func(a, b int) int { return maxInt(a, b) + 1 }),
		"(*math/big.Int).AndNot": func(it *Interp, fn *ssa.Function, args []Value) Value {
			x, xb := it.bigGet(args[1])
			y, yb := it.bigGet(args[2])
			it.bigSet(args[0], it.tt.Bin(OBAnd, x, it.tt.Un(OBNot, y)), maxInt(xb, yb)+1)
			return args[0]
		},
		"(*math/big.Int).Not": func(it *Interp, fn *ssa.Function, args []Value) Value {
			x, xb := it.bigGet(args[1])
			it.bigSet(args[0], it.tt.Un(OBNot, x), xb+1)
			return args[0]
		},
		"(*math/big.Int).Neg": func(it *Interp, fn *ssa.Function, args []Value) Value {
			x, xb := it.bigGet(args[1])
			it.bigSet(args[0], it.tt.Un(ONeg, x), xb+1)
			return args[0]
		},
		"(*math/big.Int).Abs": func(it *Interp, fn *ssa.Function, args []Value) Value {
			x, xb := it.bigGet(args[1])
			neg := it.tt.Cmp(OSlt, x, zeroBig(it))
			it.bigSet(args[0], it.tt.Ite(neg, it.tt.Un(ONeg, x), x), xb+1)
			return args[0]
		},
		"(*math/big.Int).Quo": divLike(OSDiv),
		"(*math/big.Int).Rem": divLike(OSRem),
		// Euclidean modulus and division (results for y != 0: 0 <= m < |y|)
		"(*math/big.Int).Mod": func(it *Interp, fn *ssa.Function, args []Value) Value {
			rem := divLike(OSRem)
			rem(it, fn, args)
			tt := it.tt
			r, rb := it.bigGet(args[0])
			y, yb := it.bigGet(args[2])
			neg := tt.Cmp(OSlt, r, zeroBig(it))
			absY := tt.Ite(tt.Cmp(OSlt, y, zeroBig(it)), tt.Un(ONeg, y), y)
			it.bigSet(args[0], tt.Ite(neg, tt.Bin(OAdd, r, absY), r), maxInt(rb, yb)+1)
			return args[0]
		},
		"(*math/big.Int).Div": func(it *Interp, fn *ssa.Function, args []Value) Value {
			tt := it.tt
			x, _ := it.bigGet(args[1])
			y, _ := it.bigGet(args[2])
			// q = trunc(x/y); if x rem y < 0: q -= sign(y)
			tmpQ := it.newBigCell()
			divLike(OSDiv)(it, fn, []Value{tmpQ, args[1], args[2]})
			tmpR := it.newBigCell()
			divLike(OSRem)(it, fn, []Value{tmpR, args[1], args[2]})
			q, qb := it.bigGet(tmpQ)
			r, _ := it.bigGet(tmpR)
			_ = x
			one := tt.BigConst(bigW, big.NewInt(1))
			sgn := tt.Ite(tt.Cmp(OSlt, y, zeroBig(it)), tt.Un(ONeg, one), one)
			adj := tt.Ite(tt.Cmp(OSlt, r, zeroBig(it)), tt.Bin(OSub, q, sgn), q)
			it.bigSet(args[0], adj, qb+1)
			return args[0]
		},
		"(*math/big.Int).Lsh": func(it *Interp, fn *ssa.Function, args []Value) Value {
			x, xb := it.bigGet(args[1])
			cnt := it.tt.Zext(it.term(args[2], 64), bigW)
			// the count must leave the result inside the model width
			room := int(bigW) - 2 - xb
			if room < 0 {
				room = 0
			}
			// a count of 2^40 bits or more cannot be allocated: the real Lsh panics
			huge := it.tt.Cmp(OUle, it.tt.BigConst(bigW, new(big.Int).Lsh(big.NewInt(1), 40)), cnt)
			nonzero := it.tt.Not(it.tt.Eq(x, zeroBig(it)))
			if it.truth(fromTerm(it.tt.And(huge, nonzero))) {
				it.goPanicRuntime("makeslice: len out of range")
			}
			fits := it.tt.Cmp(OUle, cnt, it.tt.BigConst(bigW, big.NewInt(int64(room))))
			if !it.truth(fromTerm(fits)) {
				it.unsupported(fmt.Sprintf("math/big model: left shift of a %d-bit value by more than %d", xb, room))
			}
			it.bigSet(args[0], it.tt.Bin(OShl, x, cnt), int(bigW)-2)
			return args[0]
		},
		"(*math/big.Int).Rsh": func(it *Interp, fn *ssa.Function, args []Value) Value {
			x, xb := it.bigGet(args[1])
			cnt := it.tt.Zext(it.term(args[2], 64), bigW)
			it.bigSet(args[0], it.tt.Bin(OAShr, x, cnt), xb)
			return args[0]
		},
		"(*math/big.Int).Cmp": func(it *Interp, fn *ssa.Function, args []Value) Value {
			x, _ := it.bigGet(args[0])
			y, _ := it.bigGet(args[1])
			tt := it.tt
			lt := tt.Cmp(OSlt, x, y)
			eq := tt.Eq(x, y)
			return fromTerm(tt.Ite(lt, tt.Const(64, ^uint64(0)), tt.Ite(eq, tt.Const(64, 0), tt.Const(64, 1))))
		},
		"(*math/big.Int).Sign": func(it *Interp, fn *ssa.Function, args []Value) Value {
			x, _ := it.bigGet(args[0])
			tt := it.tt
			lt := tt.Cmp(OSlt, x, zeroBig(it))
			eq := tt.Eq(x, zeroBig(it))
			return fromTerm(tt.Ite(lt, tt.Const(64, ^uint64(0)), tt.Ite(eq, tt.Const(64, 0), tt.Const(64, 1))))
		},
		"(*math/big.Int).IsInt64": func(it *Interp, fn *ssa.Function, args []Value) Value {
			x, _ := it.bigGet(args[0])
			tt := it.tt
			return fromTerm(tt.Eq(tt.Sext(tt.Extract(x, 63, 0), bigW), x))
		},
		"(*math/big.Int).IsUint64": func(it *Interp, fn *ssa.Function, args []Value) Value {
			x, _ := it.bigGet(args[0])
			tt := it.tt
			return fromTerm(tt.Eq(tt.Zext(tt.Extract(x, 63, 0), bigW), x))
		},
		"(*math/big.Int).Int64": func(it *Interp, fn *ssa.Function, args []Value) Value {
			x, _ := it.bigGet(args[0])
			return fromTerm(it.tt.Extract(x, 63, 0))
		},
		"(*math/big.Int).Uint64": func(it *Interp, fn *ssa.Function, args []Value) Value {
			x, _ := it.bigGet(args[0])
			tt := it.tt
			neg := tt.Cmp(OSlt, x, zeroBig(it))
			abs := tt.Ite(neg, tt.Un(ONeg, x), x)
			return fromTerm(tt.Extract(abs, 63, 0))
		},
		"(*math/big.Int).BitLen": func(it *Interp, fn *ssa.Function, args []Value) Value {
			x, xb := it.bigGet(args[0])
			if x.op == OConst {
				return Value{Bits: uint64(new(big.Int).Abs(bigSigned(constBig(x), bigW)).BitLen())}
			}
			// any value within the static bound (over-approximation)
			n := atomic.AddInt64(&bigFresh, 1)
			_ = n
			r := it.tt.Sym(64, "bitlen")
			it.pr.Assume(it.tt.Cmp(OUle, r, it.tt.Const(64, uint64(xb))))
			return Value{Ref: r}
		},
		"(*math/big.Int).SetString": func(it *Interp, fn *ssa.Function, args []Value) Value {
			str, _ := args[1].Ref.(*Str)
			if str == nil {
				it.unsupported("big.Int.SetString on a non-string")
			}
			// symbolic digits are concretised (a fork per feasible byte value)
			bs := make([]byte, str.Len())
			for i := range bs {
				bs[i] = byte(it.concInt(str.At(i), types.Typ[types.Uint8]))
			}
			base := int(it.concInt(args[2], types.Typ[types.Int]))
			v, ok := new(big.Int).SetString(string(bs), base)
			if !ok {
				return Value{Ref: Tuple{Value{}, Value{Bits: 0}}}
			}
			if v.BitLen() > int(bigW)-3 {
				it.unsupported("math/big model: literal wider than the model")
			}
			it.bigSet(args[0], it.tt.BigConst(bigW, v), v.BitLen()+1)
			return Value{Ref: Tuple{args[0], Value{Bits: 1}}}
		},
		"(*math/big.Int).Text":   func(it *Interp, fn *ssa.Function, args []Value) Value { return mkStr("<big.Int>") },
		"(*math/big.Int).String": func(it *Interp, fn *ssa.Function, args []Value) Value { return mkStr("<big.Int>") },
	}
}

var bigFresh int64

// from64 returns the 64-bit term of which x is the sign extension, if any.
func from64(x *Term) *Term {
	if x.op == OSext && x.a.sort == 64 {
		return x.a
	}
	return nil
}
