package main

import (
	"fmt"
	"go/token"
	"go/types"

	"golang.org/x/tools/go/ssa"
)

// exec runs blocks of fr.fn starting at b until a Return.
func (it *Interp) exec(fr *Frame, b *ssa.BasicBlock, prev *ssa.BasicBlock) Value {
	for {
		// phis first, simultaneously
		nphi := 0
		if prev != nil {
			predIdx := -1
			for i, p := range b.Preds {
				if p == prev {
					predIdx = i
					break
				}
			}
			var tmp [8]Value
			vals := tmp[:0]
			for _, ins := range b.Instrs {
				phi, ok := ins.(*ssa.Phi)
				if !ok {
					break
				}
				vals = append(vals, it.get(fr, phi.Edges[predIdx]))
				nphi++
			}
			for i := 0; i < nphi; i++ {
				it.set(fr, b.Instrs[i].(*ssa.Phi), vals[i])
			}
		}
		var next *ssa.BasicBlock
	instrs:
		for _, ins := range b.Instrs[nphi:] {
			it.steps++
			if it.steps > it.stepBudget && it.stepBudget > 0 {
				panic(engineAbort{"budget", fmt.Sprintf("more than %d SSA steps on one path", it.stepBudget)})
			}
			if p := ins.Pos(); p.IsValid() {
				it.lastPos = p
			}
			switch ins := ins.(type) {
			case *ssa.If:
				if it.truth(it.get(fr, ins.Cond)) {
					next = b.Succs[0]
				} else {
					next = b.Succs[1]
				}
				break instrs
			case *ssa.Jump:
				next = b.Succs[0]
				break instrs
			case *ssa.Return:
				switch len(ins.Results) {
				case 0:
					return Value{}
				case 1:
					return it.get(fr, ins.Results[0])
				}
				tp := make(Tuple, len(ins.Results))
				for i, r := range ins.Results {
					tp[i] = it.get(fr, r)
				}
				return Value{Ref: tp}
			default:
				if it.initMode {
					it.stepTolerant(fr, ins)
				} else {
					it.step(fr, ins)
				}
			}
		}
		if next == nil {
			panic("block without terminator: " + fr.fn.String())
		}
		prev, b = b, next
	}
}

// step executes one non-terminator instruction.
func (it *Interp) step(fr *Frame, ins ssa.Instruction) {
	switch ins := ins.(type) {
	case *ssa.DebugRef:
	case *ssa.Phi:
		panic("phi after non-phi")
	case *ssa.Alloc:
		it.set(fr, ins, Value{Ref: newCell(ins.Type().Underlying().(*types.Pointer).Elem(), it.epoch)})
	case *ssa.BinOp:
		it.set(fr, ins, it.binop(ins.Op, ins.X.Type(), it.get(fr, ins.X), it.get(fr, ins.Y), ins.Y.Type()))
	case *ssa.UnOp:
		x := it.get(fr, ins.X)
		switch ins.Op {
		case token.MUL:
			it.set(fr, ins, it.load(x))
		case token.ARROW:
			it.set(fr, ins, it.recv(x, ins.CommaOk, ins.X.Type()))
		default:
			it.set(fr, ins, it.unop(ins, x))
		}
	case *ssa.Store:
		it.storePtr(it.get(fr, ins.Addr), it.get(fr, ins.Val))
	case *ssa.Call:
		it.set(fr, ins, it.doCall(fr, &ins.Call, nil))
	case *ssa.Defer:
		d := deferred{}
		if ins.Call.IsInvoke() {
			d.fn = it.get(fr, ins.Call.Value)
			d.inv = &ins.Call
		} else {
			d.fn = it.get(fr, ins.Call.Value)
		}
		for _, a := range ins.Call.Args {
			d.args = append(d.args, it.get(fr, a))
		}
		fr.defers = append(fr.defers, d)
	case *ssa.RunDefers:
		it.runDefers(fr)
	case *ssa.Go:
		it.goStmt(fr, &ins.Call)
	case *ssa.Panic:
		it.goPanicValue(it.get(fr, ins.X))
	case *ssa.Extract:
		tp := it.get(fr, ins.Tuple)
		it.checkPoison(tp)
		it.set(fr, ins, tp.Ref.(Tuple)[ins.Index])
	case *ssa.Field:
		x := it.get(fr, ins.X)
		it.checkPoison(x)
		ag, isAgg := x.Ref.(*Agg)
		if !isAgg {
			it.unsupported("field access on an opaque value of type " + typeStr(ins.X.Type()))
		}
		it.set(fr, ins, ag.v[ins.Field])
	case *ssa.FieldAddr:
		x := it.get(fr, ins.X)
		c := it.cellOf(x)
		it.set(fr, ins, Value{Ref: c.sub[ins.Field]})
	case *ssa.Index:
		it.set(fr, ins, it.indexValue(ins, it.get(fr, ins.X), it.get(fr, ins.Index)))
	case *ssa.IndexAddr:
		it.set(fr, ins, it.indexAddr(ins, it.get(fr, ins.X), it.get(fr, ins.Index)))
	case *ssa.Lookup:
		it.set(fr, ins, it.lookup(ins, it.get(fr, ins.X), it.get(fr, ins.Index)))
	case *ssa.Slice:
		it.set(fr, ins, it.sliceOp(fr, ins))
	case *ssa.Convert:
		it.set(fr, ins, it.convert(it.get(fr, ins.X), ins.X.Type(), ins.Type()))
	case *ssa.ChangeType:
		it.set(fr, ins, it.get(fr, ins.X))
	case *ssa.ChangeInterface:
		it.set(fr, ins, it.get(fr, ins.X))
	case *ssa.MakeInterface:
		it.set(fr, ins, Value{Ref: &Iface{t: ins.X.Type(), v: it.get(fr, ins.X)}})
	case *ssa.TypeAssert:
		it.set(fr, ins, it.typeAssert(ins, it.get(fr, ins.X)))
	case *ssa.MakeSlice:
		it.set(fr, ins, it.makeSlice(fr, ins))
	case *ssa.MakeMap:
		mt := ins.Type().Underlying().(*types.Map)
		it.set(fr, ins, Value{Ref: &MapObj{kt: mt.Key(), vt: mt.Elem(), epoch: it.epoch}})
	case *ssa.MapUpdate:
		it.mapUpdate(it.get(fr, ins.Map), it.get(fr, ins.Key), it.get(fr, ins.Value))
	case *ssa.MakeChan:
		n := it.concInt(it.get(fr, ins.Size), ins.Size.Type())
		ch := &ChanObj{cap: int(n), epoch: it.epoch}
		it.chans = append(it.chans, ch)
		it.set(fr, ins, Value{Ref: ch})
	case *ssa.Send:
		it.send(it.get(fr, ins.Chan), it.get(fr, ins.X))
	case *ssa.MakeClosure:
		c := &Closure{fn: ins.Fn.(*ssa.Function)}
		for _, b := range ins.Bindings {
			c.bind = append(c.bind, it.get(fr, b))
		}
		it.set(fr, ins, Value{Ref: c})
	case *ssa.Range:
		it.set(fr, ins, it.rangeStart(ins, it.get(fr, ins.X)))
	case *ssa.Next:
		it.set(fr, ins, it.rangeNext(ins, it.get(fr, ins.Iter)))
	case *ssa.SliceToArrayPointer:
		s, _ := it.get(fr, ins.X).Ref.(Slice)
		at := ins.Type().Underlying().(*types.Pointer).Elem().Underlying().(*types.Array)
		if int(at.Len()) > s.n {
			it.goPanicRuntime(fmt.Sprintf("cannot convert slice with length %d to array or pointer to array with length %d", s.n, at.Len()))
		}
		it.set(fr, ins, Value{Ref: &Cell{agg: true, sub: s.c[:at.Len()], epoch: it.epoch, typ: at}})
	case *ssa.Select:
		it.unsupported("select statement")
	default:
		it.unsupported(fmt.Sprintf("instruction %T", ins))
	}
}

// stepTolerant is used while running package initialisers: an instruction the
// engine cannot execute poisons its result instead of stopping the path.
func (it *Interp) stepTolerant(fr *Frame, ins ssa.Instruction) {
	if c, ok := ins.(*ssa.Call); ok {
		if f, ok := c.Call.Value.(*ssa.Function); ok && f.Name() == "init" && f.Signature.Recv() == nil && f.Pkg != fr.fn.Pkg && f.Synthetic != "" {
			return // other packages are initialised lazily
		}
	}
	saved, depth := it.cur, it.depth
	defer func() {
		if r := recover(); r != nil {
			var why string
			switch e := r.(type) {
			case engineAbort:
				why = e.msg
			case *goPanic:
				why = "panic during init: " + it.panicMessage(e.val)
			default:
				panic(r)
			}
			it.cur, it.depth = saved, depth
			if v, ok := ins.(ssa.Value); ok {
				it.set(fr, v, Value{Ref: &poisonT{why}})
			}
			if it.eng.verbose {
				fmt.Printf("init %s: %s: poisoned: %s\n", fr.fn.Pkg.Pkg.Path(), ins, why)
			}
		}
	}()
	it.step(fr, ins)
}

func (it *Interp) cellOf(p Value) *Cell {
	c, ok := p.Ref.(*Cell)
	if !ok {
		if p.Ref == nil {
			it.goPanicRuntime("invalid memory address or nil pointer dereference")
		}
		it.checkPoison(p)
		switch p.Ref.(type) {
		case *typeToken, *ReflVal:
			it.unsupported("reflect internals reached with a modelled reflect value (an unmodelled reflect function)")
		}
		panic(fmt.Sprintf("cellOf: %T", p.Ref))
	}
	return c
}

func (it *Interp) load(p Value) Value {
	if sp, ok := p.Ref.(*symPtr); ok {
		return it.readSymbolic(len(sp.cells), func(i int) Value { return it.loadCell(sp.cells[i]) }, sp.idx, sp.elem)
	}
	return it.loadCell(it.cellOf(p))
}

// symPtr is the address of an element selected by a symbolic, in-range index;
// it only exists between an IndexAddr and the loads that are its sole uses.
type symPtr struct {
	cells []*Cell
	idx   *Term
	elem  types.Type
}

func onlyLoaded(ins *ssa.IndexAddr) bool {
	refs := ins.Referrers()
	if refs == nil || len(*refs) == 0 {
		return false
	}
	for _, r := range *refs {
		u, ok := r.(*ssa.UnOp)
		if !ok || u.Op != token.MUL {
			if _, dbg := r.(*ssa.DebugRef); dbg {
				continue
			}
			return false
		}
	}
	return true
}

func (it *Interp) storePtr(p Value, v Value) {
	it.store(it.cellOf(p), v)
}

func (it *Interp) doCall(fr *Frame, cc *ssa.CallCommon, deferOf *Frame) Value {
	args := make([]Value, len(cc.Args))
	for i, a := range cc.Args {
		args[i] = it.get(fr, a)
	}
	if cc.IsInvoke() {
		return it.invoke(it.get(fr, cc.Value), cc.Method, args, deferOf)
	}
	switch f := cc.Value.(type) {
	case *ssa.Function:
		return it.callFunction(f, args, nil, deferOf)
	case *ssa.Builtin:
		return it.callBuiltin(f, args, cc, deferOf)
	}
	return it.callValue(it.get(fr, cc.Value), args, nil, deferOf)
}

func (it *Interp) goStmt(fr *Frame, cc *ssa.CallCommon) {
	defer func() {
		if r := recover(); r != nil {
			if gp, ok := r.(*goPanic); ok {
				gp.goroutine = true
				panic(gp)
			}
			panic(r)
		}
	}()
	saved := it.cur
	it.cur = nil
	it.doCall(fr, cc, nil)
	it.cur = saved
}

// ---- indexing ----

// boundsCheck decides idx < n (unsigned) and raises the Go panic otherwise.
// It returns the concrete index when idx is concrete, or -1 with the term.
func (it *Interp) boundsCheck(idx Value, idxT types.Type, n int) (int, *Term) {
	w, signed := scalarSort(idxT)
	if idx.Ref == nil {
		var i int64
		if signed {
			i = sext64(idx.Bits, w)
		} else {
			i = int64(idx.Bits)
			if idx.Bits > 1<<62 {
				i = -1
			}
		}
		if i < 0 || i >= int64(n) {
			it.goPanicRuntime(fmt.Sprintf("index out of range [%d] with length %d", i, n))
		}
		return int(i), nil
	}
	t := idx.Ref.(*Term)
	if w < 64 {
		if signed {
			t = it.tt.Sext(t, 64)
		} else {
			t = it.tt.Zext(t, 64)
		}
		w = 64
	}
	in := it.tt.Cmp(OUlt, t, it.tt.Const(w, uint64(n)))
	if !it.pr.Decide(in) {
		it.goPanicRuntime(fmt.Sprintf("index out of range [symbolic] with length %d", n))
	}
	return -1, t
}

// shapeSig returns a signature of the shape of a value: two values with the
// same signature differ only in scalar leaves.
func shapeSig(v Value) string {
	switch x := v.Ref.(type) {
	case nil:
		return "s"
	case *Term:
		return "s"
	case *Str:
		return fmt.Sprintf("S%d", x.Len())
	case *Agg:
		s := "{"
		for _, e := range x.v {
			s += shapeSig(e) + ","
		}
		return s + "}"
	default:
		return fmt.Sprintf("%T:%p", x, x)
	}
}

func scalarLike(v Value) bool {
	switch v.Ref.(type) {
	case nil, *Term:
		return true
	}
	return false
}

// mergeValues builds ite(cond, a, b) for two values of identical shape.
func (it *Interp) mergeValues(cond *Term, a, b Value, t types.Type) Value {
	switch x := a.Ref.(type) {
	case nil, *Term:
		if a.Ref == nil && b.Ref == nil && a.Bits == b.Bits {
			return a
		}
		var s Sort
		if tm, ok := a.Ref.(*Term); ok {
			s = tm.sort
		} else if tm, ok := b.Ref.(*Term); ok {
			s = tm.sort
		} else if t != nil && isScalar(t) {
			s, _ = scalarSort(t)
		} else {
			// two different concrete non-scalars (nil pointers etc.) cannot be merged
			panic(engineAbort{"unsupported", "merge of distinct non-scalar values under a symbolic index"})
		}
		return fromTerm(it.tt.Ite(cond, it.term(a, s), it.term(b, s)))
	case *Str:
		y := b.Ref.(*Str)
		if x == y || (x.Concrete() && y.Concrete() && x.s == y.s) {
			return a
		}
		bs := make([]Value, x.Len())
		for i := range bs {
			bs[i] = it.mergeValues(cond, x.At(i), y.At(i), types.Typ[types.Uint8])
		}
		return mkStrBytes(bs)
	case *Agg:
		y := b.Ref.(*Agg)
		out := &Agg{v: make([]Value, len(x.v))}
		for i := range out.v {
			var ft types.Type
			if t != nil {
				switch u := t.Underlying().(type) {
				case *types.Struct:
					ft = u.Field(i).Type()
				case *types.Array:
					ft = u.Elem()
				}
			}
			out.v[i] = it.mergeValues(cond, x.v[i], y.v[i], ft)
		}
		return Value{Ref: out}
	}
	if a.Ref == b.Ref {
		return a
	}
	panic(engineAbort{"unsupported", "merge of incompatible shapes"})
}

// readSymbolic reads cells[idx] for a symbolic in-range index: the elements
// are grouped by shape; the path forks per group and merges scalar leaves.
func (it *Interp) readSymbolic(n int, at func(int) Value, idx *Term, elemT types.Type) Value {
	tt := it.tt
	w := idx.sort
	// group by shape
	type group struct {
		sig  string
		idxs []int
	}
	var groups []*group
	bysig := map[string]*group{}
	vals := make([]Value, n)
	for i := 0; i < n; i++ {
		v := at(i)
		it.checkPoison(v)
		vals[i] = v
		sg := shapeSig(v)
		// value-identical groups for non-mergeable shapes are handled by the
		// pointer in the signature
		g := bysig[sg]
		if g == nil {
			g = &group{sig: sg}
			bysig[sg] = g
			groups = append(groups, g)
		}
		g.idxs = append(g.idxs, i)
	}
	var chosen *group
	if len(groups) == 1 {
		chosen = groups[0]
	} else {
		for gi, g := range groups {
			if gi == len(groups)-1 {
				chosen = g
				break
			}
			// membership condition
			cond := tt.False
			for _, i := range g.idxs {
				cond = tt.Or(cond, tt.Eq(idx, tt.Const(w, uint64(i))))
			}
			if it.pr.Decide(cond) {
				chosen = g
				break
			}
		}
	}
	// merge within the group: consecutive members with identical values form a
	// run selected by one range test (the index is known to be in the group)
	ids := chosen.idxs
	last := len(ids) - 1
	res := vals[ids[last]]
	k := last
	for k > 0 && sameValue(vals[ids[k-1]], res) {
		k--
	}
	// ids[k..last] all carry res; walk down the remaining runs
	for k > 0 {
		hi := k - 1
		v := vals[ids[hi]]
		lo := hi
		for lo > 0 && sameValue(vals[ids[lo-1]], v) {
			lo--
		}
		// idx <= ids[hi] selects this run or an earlier one
		res = it.mergeValues(tt.Cmp(OUle, idx, tt.Const(w, uint64(ids[hi]))), v, res, elemT)
		k = lo
	}
	return res
}

// sameValue reports whether two values are identical concrete scalars or
// identical concrete strings (cheap syntactic test used for run compression).
func sameValue(a, b Value) bool {
	switch x := a.Ref.(type) {
	case nil:
		return b.Ref == nil && a.Bits == b.Bits
	case *Str:
		y, ok := b.Ref.(*Str)
		return ok && (x == y || x.Concrete() && y.Concrete() && x.s == y.s)
	case *Term:
		return a.Ref == b.Ref
	}
	return false
}

func (it *Interp) indexAddr(ins *ssa.IndexAddr, x, idx Value) Value {
	it.checkPoison(x)
	var cells []*Cell
	switch xt := ins.X.Type().Underlying().(type) {
	case *types.Pointer:
		_ = xt
		c := it.cellOf(x)
		cells = c.sub
	case *types.Slice:
		s, _ := x.Ref.(Slice)
		cells = s.c[:s.n]
	default:
		it.unsupported("IndexAddr on " + typeStr(ins.X.Type()))
	}
	i, t := it.boundsCheck(idx, ins.Index.Type(), len(cells))
	if t != nil {
		if onlyLoaded(ins) {
			// the element address is only dereferenced: read symbolically
			return Value{Ref: &symPtr{cells: cells, idx: t, elem: ins.Type().Underlying().(*types.Pointer).Elem()}}
		}
		// pointer with a symbolic index: concretise
		i = int(it.pr.Concretize(t))
	}
	return Value{Ref: cells[i]}
}

func (it *Interp) indexValue(ins *ssa.Index, x, idx Value) Value {
	it.checkPoison(x)
	switch v := x.Ref.(type) {
	case *Agg:
		i, t := it.boundsCheck(idx, ins.Index.Type(), len(v.v))
		if t != nil {
			return it.readSymbolic(len(v.v), func(i int) Value { return v.v[i] }, t, ins.Type())
		}
		return v.v[i]
	case *Str:
		return it.strIndex(v, idx, ins.Index.Type())
	}
	it.unsupported(fmt.Sprintf("Index on %T", x.Ref))
	return Value{}
}

func (it *Interp) strIndex(s *Str, idx Value, idxT types.Type) Value {
	i, t := it.boundsCheck(idx, idxT, s.Len())
	if t != nil {
		return it.readSymbolic(s.Len(), func(i int) Value { return s.At(i) }, t, types.Typ[types.Uint8])
	}
	return s.At(i)
}

func (it *Interp) lookup(ins *ssa.Lookup, x, key Value) Value {
	it.checkPoison(x)
	if s, ok := x.Ref.(*Str); ok {
		return it.strIndex(s, key, ins.Index.Type())
	}
	mt := ins.X.Type().Underlying().(*types.Map)
	m, _ := x.Ref.(*MapObj)
	var val Value
	found := false
	if m != nil {
		if i := it.mapFind(m, key); i >= 0 {
			val, found = m.vals[i], true
		}
	}
	if !found {
		val = zeroValue(mt.Elem())
	}
	if ins.CommaOk {
		return Value{Ref: Tuple{val, Value{Bits: b2u(found)}}}
	}
	return val
}

// mapFind returns the index of key in m, forking on symbolic comparisons.
func (it *Interp) mapFind(m *MapObj, key Value) int {
	if ifc, ok := key.Ref.(*Iface); ok && !types.Comparable(ifc.t) {
		// gc spells the error differently for a lookup or delete on an empty
		// map (internal/runtime/maps.unhashableTypeError) and for every other
		// map operation (runtime.errorString raised by the hash function)
		if len(m.keys) == 0 && !it.mapAssign {
			it.goPanicValue(it.errorString("hash of unhashable type: " + typeStr(ifc.t)))
		}
		it.goPanicRuntime("hash of unhashable type " + typeStr(ifc.t))
	}
	for i, k := range m.keys {
		if it.truth(it.equal(m.kt, k, key)) {
			return i
		}
	}
	return -1
}

func (it *Interp) mapUpdate(mv, key, val Value) {
	it.checkPoison(mv)
	m, _ := mv.Ref.(*MapObj)
	if m == nil {
		it.goPanicValue(it.errorString("assignment to entry in nil map"))
	}
	if m.epoch != it.epoch {
		it.unsupported("update of a frozen (package-level) map")
	}
	it.mapAssign = true
	i := it.mapFind(m, key)
	it.mapAssign = false
	if i >= 0 {
		m.vals[i] = val
		return
	}
	m.keys = append(m.keys, key)
	m.vals = append(m.vals, val)
}

func (it *Interp) errorString(msg string) Value {
	t := it.eng.modelType("PlainRuntimeError")
	return Value{Ref: &Iface{t: t, v: Value{Ref: &Agg{v: []Value{mkStr(msg)}}}}}
}

// ---- slices ----

func (it *Interp) optInt(fr *Frame, v ssa.Value, def int) int {
	if v == nil {
		return def
	}
	return int(it.concInt(it.get(fr, v), v.Type()))
}

// optBound is the value of an optional slice index that must lie in [0, max];
// on the paths where it does not, the Go run-time panic is raised. A symbolic
// index is first decided in or out of range and only then concretised.
func (it *Interp) optBound(fr *Frame, v ssa.Value, def, max int, what string, args ...int) int {
	if v == nil {
		return def
	}
	x := it.get(fr, v)
	t, ok := x.Ref.(*Term)
	if !ok {
		i := it.concInt(x, v.Type())
		if i < 0 || i > int64(max) {
			it.goPanicRuntime("slice bounds out of range " + fmt.Sprintf(what, append([]any{i}, anyInts(args)...)...))
		}
		return int(i)
	}
	w, signed := scalarSort(v.Type())
	if w < 64 {
		if signed {
			t = it.tt.Sext(t, 64)
		} else {
			t = it.tt.Zext(t, 64)
		}
	}
	if !it.pr.Decide(it.tt.Cmp(OUle, t, it.tt.Const(64, uint64(max)))) {
		it.goPanicRuntime("slice bounds out of range [symbolic index] " + what)
	}
	return int(it.pr.Concretize(t))
}

func anyInts(xs []int) []any {
	r := make([]any, len(xs))
	for i, x := range xs {
		r[i] = x
	}
	return r
}

func (it *Interp) sliceOp(fr *Frame, ins *ssa.Slice) Value {
	x := it.get(fr, ins.X)
	it.checkPoison(x)
	switch xt := ins.X.Type().Underlying().(type) {
	case *types.Basic: // string
		s := x.Ref.(*Str)
		hi := it.optBound(fr, ins.High, s.Len(), s.Len(), "[:%d] with length %d", s.Len())
		lo := it.optBound(fr, ins.Low, 0, hi, "[%d:%d]", hi)
		return s.Slice(lo, hi)
	case *types.Slice:
		s, _ := x.Ref.(Slice)
		mx := it.optBound(fr, ins.Max, len(s.c), len(s.c), "[::%d] with capacity %d", len(s.c))
		var hi, lo int
		if ins.Max != nil {
			hi = it.optBound(fr, ins.High, mx, mx, "[:%d:%d]", mx)
			lo = it.optBound(fr, ins.Low, 0, hi, "[%d:%d:]", hi)
		} else {
			hi = it.optBound(fr, ins.High, s.n, mx, "[:%d] with capacity %d", mx)
			lo = it.optBound(fr, ins.Low, 0, hi, "[%d:%d]", hi)
		}
		if s.c == nil {
			return x
		}
		return Value{Ref: Slice{c: s.c[lo:mx:mx], n: hi - lo}}
	case *types.Pointer: // *array
		_ = xt
		c := it.cellOf(x)
		n := len(c.sub)
		mx := it.optBound(fr, ins.Max, n, n, "[::%d] with length %d", n)
		var hi, lo int
		if ins.Max != nil {
			hi = it.optBound(fr, ins.High, mx, mx, "[:%d:%d]", mx)
			lo = it.optBound(fr, ins.Low, 0, hi, "[%d:%d:]", hi)
		} else {
			hi = it.optBound(fr, ins.High, mx, mx, "[:%d] with length %d", mx)
			lo = it.optBound(fr, ins.Low, 0, hi, "[%d:%d]", hi)
		}
		return Value{Ref: Slice{c: c.sub[lo:mx:mx], n: hi - lo}}
	}
	it.unsupported("slice of " + typeStr(ins.X.Type()))
	return Value{}
}

func (it *Interp) makeSlice(fr *Frame, ins *ssa.MakeSlice) Value {
	n := it.concInt(it.get(fr, ins.Len), ins.Len.Type())
	c := it.concInt(it.get(fr, ins.Cap), ins.Cap.Type())
	if n < 0 || n > 1<<24 {
		it.goPanicRuntime("makeslice: len out of range")
	}
	if c < n || c > 1<<24 {
		it.goPanicRuntime("makeslice: cap out of range")
	}
	et := ins.Type().Underlying().(*types.Slice).Elem()
	return Value{Ref: it.newSlice(et, int(n), int(c))}
}

func (it *Interp) newSlice(et types.Type, n, c int) Slice {
	cells := make([]*Cell, c)
	if isScalar(et) {
		backing := make([]Cell, c)
		for i := range cells {
			backing[i] = Cell{epoch: it.epoch, typ: et}
			cells[i] = &backing[i]
		}
	} else {
		for i := range cells {
			cells[i] = newCell(et, it.epoch)
		}
	}
	return Slice{c: cells, n: n}
}

// ---- type assertions ----

func (it *Interp) implements(t types.Type, iface *types.Interface) bool {
	return types.Implements(t, iface)
}

func (it *Interp) typeAssert(ins *ssa.TypeAssert, x Value) Value {
	it.checkPoison(x)
	ifc, _ := x.Ref.(*Iface)
	ok := false
	var res Value
	if ifc != nil {
		if ai, isI := ins.AssertedType.Underlying().(*types.Interface); isI {
			if it.implements(ifc.t, ai) {
				ok, res = true, x
			}
		} else if types.Identical(ifc.t, ins.AssertedType) {
			ok, res = true, ifc.v
		}
	}
	if ins.CommaOk {
		if !ok {
			res = zeroValue(ins.AssertedType)
		}
		return Value{Ref: Tuple{res, Value{Bits: b2u(ok)}}}
	}
	if !ok {
		var msg string
		if ifc == nil {
			msg = fmt.Sprintf("interface conversion: interface is nil, not %s", typeStr(ins.AssertedType))
		} else {
			msg = fmt.Sprintf("interface conversion: interface {} is %s, not %s", typeStr(ifc.t), typeStr(ins.AssertedType))
		}
		it.goPanicRuntime(msg)
	}
	return res
}

// ---- channels (sequentialised) ----

func (it *Interp) send(ch, v Value) {
	c, _ := ch.Ref.(*ChanObj)
	if c == nil {
		it.fail("deadlock", "send-nil-chan", "send on nil channel blocks forever", nil)
	}
	if c.closed {
		it.goPanicValue(it.errorString("send on closed channel"))
	}
	c.q = append(c.q, v)
}

func (it *Interp) recv(ch Value, commaOk bool, t types.Type) Value {
	c, _ := ch.Ref.(*ChanObj)
	if c == nil {
		it.fail("deadlock", "recv-nil-chan", "receive on nil channel blocks forever", nil)
	}
	et := t.Underlying().(*types.Chan).Elem()
	var v Value
	ok := false
	if len(c.q) > 0 {
		v, ok = c.q[0], true
		c.q = c.q[1:]
	} else if c.closed {
		v = zeroValue(et)
	} else {
		it.fail("deadlock", "recv-blocks", "receive on an empty channel that nobody will write or close (sender goroutine finished)", nil)
	}
	if commaOk {
		return Value{Ref: Tuple{v, Value{Bits: b2u(ok)}}}
	}
	return v
}

// ---- range ----

func (it *Interp) rangeStart(ins *ssa.Range, x Value) Value {
	it.checkPoison(x)
	switch v := x.Ref.(type) {
	case *Str:
		return Value{Ref: &RangeIter{str: v}}
	case *MapObj:
		keys := append([]Value(nil), v.keys...)
		if it.mapOrder && len(keys) > 1 {
			// every iteration order: pick a permutation by successive choices
			for i := 0; i < len(keys)-1; i++ {
				j := i + it.pr.Choose(len(keys)-i)
				keys[i], keys[j] = keys[j], keys[i]
			}
		}
		return Value{Ref: &RangeIter{m: v, keys: keys}}
	case nil:
		return Value{Ref: &RangeIter{m: &MapObj{}}}
	}
	it.unsupported(fmt.Sprintf("range over %T", x.Ref))
	return Value{}
}

func (it *Interp) rangeNext(ins *ssa.Next, iv Value) Value {
	ri := iv.Ref.(*RangeIter)
	if ins.IsString {
		if ri.pos >= ri.str.Len() {
			return Value{Ref: Tuple{Value{Bits: 0}, Value{}, Value{}}}
		}
		r, sz := it.decodeRune(ri.str, ri.pos)
		i := ri.pos
		ri.pos += sz
		return Value{Ref: Tuple{Value{Bits: 1}, Value{Bits: uint64(i)}, r}}
	}
	for ri.idx < len(ri.keys) {
		k := ri.keys[ri.idx]
		ri.idx++
		// entries deleted during iteration are skipped
		for j, mk := range ri.m.keys {
			if mk.Ref == k.Ref && mk.Bits == k.Bits || it.concreteEq(ri.m.kt, mk, k) {
				return Value{Ref: Tuple{Value{Bits: 1}, k, ri.m.vals[j]}}
			}
		}
	}
	tp := ins.Type().(*types.Tuple)
	return Value{Ref: Tuple{Value{Bits: 0}, zeroValue(tp.At(1).Type()), zeroValue(tp.At(2).Type())}}
}

func (it *Interp) concreteEq(t types.Type, a, b Value) bool {
	v := it.equal(t, a, b)
	return v.Ref == nil && v.Bits != 0
}

// decodeRune decodes the rune at s[pos:] using the real unicode/utf8 code for
// non-ASCII or symbolic lead bytes. It returns the rune value (int32) and the
// width, which is concrete on the path.
func (it *Interp) decodeRune(s *Str, pos int) (Value, int) {
	b := s.At(pos)
	if b.Ref == nil && b.Bits < 0x80 {
		return Value{Bits: b.Bits}, 1
	}
	fn := it.eng.pkgs["unicode/utf8"].Func("DecodeRuneInString")
	end := pos + 4
	if end > s.Len() {
		end = s.Len()
	}
	res := it.callFunction(fn, []Value{s.Slice(pos, end)}, nil, nil).Ref.(Tuple)
	sz := it.concInt(res[1], types.Typ[types.Int])
	return res[0], int(sz)
}
