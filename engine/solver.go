package main

import (
	"bufio"
	"fmt"
	"io"
	"math/big"
	"os"
	"os/exec"
	"strconv"
	"strings"
	"time"
)

type SatResult int

const (
	Unsat SatResult = iota
	Sat
	Unknown
)

// Solver wraps one long-lived `z3 -in` process. The assertion stack mirrors
// the decisions of the path being explored.
type Solver struct {
	cmd   *exec.Cmd
	in    *bufio.Writer
	out   *bufio.Reader
	level int
	// per level: ids defined / names declared at that level
	defs   [][]int32
	decls  [][]string
	defAt  map[int32]int
	declAt map[string]int

	Queries     int
	SatCount    int
	Unsats      int
	Unknowns    int
	Errors      int
	Time        time.Duration
	log         io.Writer
	timeoutMs   int
	bin         string
	logic       string
	debugBodies map[int32]string
	lines       [][]string // declarations, definitions and assertions per level (for the one-shot fallback)
	pending     string     // get-value answer of a one-shot fallback run, consumed by GetModel
	Fallbacks   int
	fallbackMs  int
}

func NewSolver(bin string, timeoutMs int, logPath string, logic string) (*Solver, error) {
	s := &Solver{bin: bin, timeoutMs: timeoutMs, logic: logic}
	if logPath != "" {
		f, err := os.Create(logPath)
		if err != nil {
			return nil, err
		}
		s.log = f
	}
	if err := s.start(); err != nil {
		return nil, err
	}
	return s, nil
}

func (s *Solver) start() error {
	args := []string{"-in"}
	if strings.Contains(s.bin, "cvc5") {
		args = []string{"--incremental", "--lang=smt2", "--produce-models", fmt.Sprintf("--tlimit-per=%d", s.timeoutMs)}
	}
	cmd := exec.Command(s.bin, args...)
	stdin, err := cmd.StdinPipe()
	if err != nil {
		return err
	}
	stdout, err := cmd.StdoutPipe()
	if err != nil {
		return err
	}
	cmd.Stderr = os.Stderr
	if err := cmd.Start(); err != nil {
		return err
	}
	s.cmd = cmd
	s.in = bufio.NewWriterSize(stdin, 1<<16)
	s.out = bufio.NewReaderSize(stdout, 1<<16)
	s.level = 0
	s.lines = nil
	s.defs = [][]int32{nil}
	s.decls = [][]string{nil}
	s.defAt = map[int32]int{}
	s.declAt = map[string]int{}
	if os.Getenv("GOSYMEX_DEBUGDEFS") != "" {
		s.debugBodies = map[int32]string{}
	}
	if !strings.Contains(s.bin, "cvc5") {
		s.send("(set-option :print-success false)")
		s.send(fmt.Sprintf("(set-option :timeout %d)", s.timeoutMs))
		s.send("(set-option :model.completion true)")
		if s.logic != "" {
			s.send("(set-logic " + s.logic + ")")
		}
	} else {
		s.send("(set-logic ALL)")
	}
	return nil
}

func (s *Solver) Close() {
	if s.cmd != nil {
		s.send("(exit)")
		s.in.Flush()
		s.cmd.Process.Kill()
		s.cmd.Wait()
		s.cmd = nil
	}
}

func (s *Solver) send(line string) {
	if s.log != nil {
		fmt.Fprintln(s.log, line)
	}
	if strings.HasPrefix(line, "(declare-") || strings.HasPrefix(line, "(define-") || strings.HasPrefix(line, "(assert") {
		for len(s.lines) <= s.level {
			s.lines = append(s.lines, nil)
		}
		s.lines[s.level] = append(s.lines[s.level], line)
	}
	s.in.WriteString(line)
	s.in.WriteByte('\n')
}

func (s *Solver) Push() {
	s.send("(push 1)")
	s.level++
	s.defs = append(s.defs, nil)
	s.decls = append(s.decls, nil)
}

func (s *Solver) PopTo(level int) {
	if level >= s.level {
		return
	}
	n := s.level - level
	s.send(fmt.Sprintf("(pop %d)", n))
	for l := s.level; l > level; l-- {
		for _, id := range s.defs[l] {
			delete(s.defAt, id)
		}
		for _, nm := range s.decls[l] {
			delete(s.declAt, nm)
		}
	}
	s.defs = s.defs[:level+1]
	s.decls = s.decls[:level+1]
	if len(s.lines) > level+1 {
		s.lines = s.lines[:level+1]
	}
	s.level = level
}

func (s *Solver) ref(t *Term) string {
	switch t.op {
	case OConst:
		return constSMT(t)
	case OSym:
		if _, ok := s.declAt[t.name]; !ok {
			s.send(fmt.Sprintf("(declare-const %s %s)", t.name, t.sort.smt()))
			s.declAt[t.name] = s.level
			s.decls[s.level] = append(s.decls[s.level], t.name)
		}
		return t.name
	}
	if _, ok := s.defAt[t.id]; ok && s.debugBodies != nil {
		body := termBody(t, func(x *Term) string {
			if x.op == OConst {
				return constSMT(x)
			}
			if x.op == OSym {
				return x.name
			}
			return "t" + strconv.Itoa(int(x.id))
		})
		if s.debugBodies[t.id] != body {
			panic(fmt.Sprintf("stale definition t%d: solver has %q, run has %q (level %d, defined at %d)", t.id, s.debugBodies[t.id], body, s.level, s.defAt[t.id]))
		}
	}
	if s.logic == "QF_BV" && (t.op == OUF || t.op >= OFAdd && t.op <= OFToBits) {
		panic(engineAbort{"unsupported", "floating-point or uninterpreted term sent to a solver started with logic QF_BV: set \"logic\": \"ALL\" for this harness"})
	}
	if _, ok := s.defAt[t.id]; !ok {
		if t.op == OUF {
			key := "uf:" + t.name
			if _, ok := s.declAt[key]; !ok {
				var sb strings.Builder
				for _, a := range t.args {
					sb.WriteString(a.sort.smt() + " ")
				}
				s.send(fmt.Sprintf("(declare-fun %s (%s) %s)", t.name, sb.String(), t.sort.smt()))
				s.declAt[key] = s.level
				s.decls[s.level] = append(s.decls[s.level], key)
			}
		}
		body := termBody(t, s.ref)
		s.send(fmt.Sprintf("(define-fun t%d () %s %s)", t.id, t.sort.smt(), body))
		s.defAt[t.id] = s.level
		if s.debugBodies != nil {
			s.debugBodies[t.id] = body
		}
		s.defs[s.level] = append(s.defs[s.level], t.id)
	}
	return "t" + strconv.Itoa(int(t.id))
}

func (s *Solver) Assert(t *Term) {
	r := s.ref(t)
	s.send("(assert " + r + ")")
}

func (s *Solver) readLine() (string, error) {
	line, err := s.out.ReadString('\n')
	return strings.TrimSpace(line), err
}

func (s *Solver) Check() SatResult {
	s.Queries++
	t0 := time.Now()
	s.send("(check-sat)")
	s.in.Flush()
	var res SatResult = Unknown
	for {
		line, err := s.readLine()
		if err != nil {
			s.Errors++
			fmt.Fprintf(os.Stderr, "solver: read error: %v\n", err)
			// restart the solver: state lost, report unknown; the caller treats
			// this as inconclusive.
			s.cmd = nil
			break
		}
		if line == "" {
			continue
		}
		if line == "sat" {
			res = Sat
			break
		}
		if line == "unsat" {
			res = Unsat
			break
		}
		if line == "unknown" || line == "timeout" {
			res = Unknown
			break
		}
		if strings.HasPrefix(line, "(error") {
			s.Errors++
			fmt.Fprintf(os.Stderr, "solver: %s\n", line)
			continue // the check-sat answer still follows
		}
		fmt.Fprintf(os.Stderr, "solver: unexpected output %q\n", line)
	}
	s.pending = ""
	if res == Unknown && s.cmd != nil && s.fallbackMs > 0 {
		res = s.oneShot()
	}
	s.Time += time.Since(t0)
	switch res {
	case Sat:
		s.SatCount++
	case Unsat:
		s.Unsats++
	default:
		s.Unknowns++
	}
	return res
}

// CheckWith checks satisfiability of the current stack plus extra terms.
func (s *Solver) CheckWith(extra ...*Term) SatResult {
	s.Push()
	for _, t := range extra {
		s.Assert(t)
	}
	r := s.Check()
	return r
	// caller must PopTo(level-1) after reading the model
}

// GetModel reads the values of the given symbols (those declared) after a sat answer.
func (s *Solver) GetModel(syms []*Term) (Model, map[string]*big.Int) {
	m := Model{}
	var bigs map[string]*big.Int
	var names []string
	for _, t := range syms {
		if _, ok := s.declAt[t.name]; ok {
			names = append(names, t.name)
		}
	}
	if len(names) == 0 {
		return m, nil
	}
	sortOf := map[string]Sort{}
	for _, t := range syms {
		sortOf[t.name] = t.sort
	}
	t0 := time.Now()
	var req strings.Builder
	req.WriteString("(get-value (")
	for _, n := range names {
		st := sortOf[n]
		if st == SF32 || st == SF64 {
			req.WriteString("(fp.to_ieee_bv " + n + ") ")
		} else {
			req.WriteString(n + " ")
		}
	}
	req.WriteString("))")
	var sb strings.Builder
	depth := 0
	started := false
	if s.pending != "" {
		out := s.runOneShot(req.String())
		parts := strings.SplitN(out, "\n", 2)
		if len(parts) == 2 {
			sb.WriteString(parts[1])
		}
		started, depth = true, 0
	} else {
		s.send(req.String())
		s.in.Flush()
	}
	// read balanced s-expression
	for s.pending == "" {
		line, err := s.out.ReadString('\n')
		if err != nil {
			s.Errors++
			break
		}
		sb.WriteString(line)
		for _, ch := range line {
			if ch == '(' {
				depth++
				started = true
			} else if ch == ')' {
				depth--
			}
		}
		if started && depth <= 0 {
			break
		}
	}
	s.Time += time.Since(t0)
	txt := sb.String()
	if strings.Contains(txt, "(error") {
		s.Errors++
		fmt.Fprintf(os.Stderr, "solver get-value: %s\n", txt)
		return m, nil
	}
	toks := tokenize(txt)
	// The answer is ((expr value) (expr value) ...), in request order. Parse
	// values positionally: find for each pair the last atom/list.
	pos := 0
	expect := func(tok string) {
		if pos < len(toks) && toks[pos] == tok {
			pos++
		}
	}
	skipExpr := func() {
		if pos >= len(toks) {
			return
		}
		if toks[pos] != "(" {
			pos++
			return
		}
		d := 0
		for pos < len(toks) {
			if toks[pos] == "(" {
				d++
			} else if toks[pos] == ")" {
				d--
			}
			pos++
			if d == 0 {
				return
			}
		}
	}
	expect("(")
	for _, n := range names {
		expect("(")
		skipExpr() // the expression
		// the value
		var val *big.Int
		if pos < len(toks) {
			tk := toks[pos]
			switch {
			case tk == "true":
				val = big.NewInt(1)
				pos++
			case tk == "false":
				val = big.NewInt(0)
				pos++
			case strings.HasPrefix(tk, "#x"):
				val, _ = new(big.Int).SetString(tk[2:], 16)
				pos++
			case strings.HasPrefix(tk, "#b"):
				val, _ = new(big.Int).SetString(tk[2:], 2)
				pos++
			case tk == "(":
				// (_ bvN w)
				if pos+2 < len(toks) && toks[pos+1] == "_" && strings.HasPrefix(toks[pos+2], "bv") {
					val, _ = new(big.Int).SetString(toks[pos+2][2:], 10)
				}
				skipExpr()
			default:
				pos++
			}
		}
		expect(")")
		if val == nil {
			val = big.NewInt(0)
		}
		if sortOf[n] > 64 {
			if bigs == nil {
				bigs = map[string]*big.Int{}
			}
			bigs[n] = val
		} else {
			m[n] = val.Uint64()
		}
	}
	return m, bigs
}

func tokenize(s string) []string {
	var toks []string
	i := 0
	for i < len(s) {
		c := s[i]
		switch {
		case c == '(' || c == ')':
			toks = append(toks, string(c))
			i++
		case c == ' ' || c == '\n' || c == '\t' || c == '\r':
			i++
		default:
			j := i
			for j < len(s) && !strings.ContainsRune("() \n\t\r", rune(s[j])) {
				j++
			}
			toks = append(toks, s[i:j])
			i = j
		}
	}
	return toks
}

// oneShot re-decides the current assertion stack with a fresh solver process
// in non-incremental mode, where z3 applies its full preprocessing (an
// incremental check of the same bit-vector query can time out while the
// one-shot run needs seconds). The values of the declared symbols are
// fetched in the same run and kept for GetModel.
func (s *Solver) runOneShot(extra string) string {
	f, err := os.CreateTemp("", "gosymex-*.smt2")
	if err != nil {
		return ""
	}
	defer os.Remove(f.Name())
	w := bufio.NewWriter(f)
	fmt.Fprintln(w, "(set-option :model.completion true)")
	if s.logic != "" {
		fmt.Fprintf(w, "(set-logic %s)\n", s.logic)
	}
	for _, lv := range s.lines {
		for _, l := range lv {
			fmt.Fprintln(w, l)
		}
	}
	fmt.Fprintln(w, "(check-sat)")
	if extra != "" {
		fmt.Fprintln(w, extra)
	}
	w.Flush()
	f.Close()
	out, _ := exec.Command(s.bin, fmt.Sprintf("-T:%d", (s.fallbackMs+999)/1000), f.Name()).Output()
	return string(out)
}

func (s *Solver) oneShot() SatResult {
	s.Fallbacks++
	out := s.runOneShot("")
	ans := strings.TrimSpace(strings.SplitN(out, "\n", 2)[0])
	switch ans {
	case "unsat":
		return Unsat
	case "sat":
		s.pending = "oneshot"
		return Sat
	}
	return Unknown
}
