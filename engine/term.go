package main

import (
	"fmt"
	"math"
	"math/big"
	"math/bits"
	"strings"
)

// Sort of a term: >0 is a bit-vector of that width.
type Sort int16

const (
	SBool Sort = -1
	SF32  Sort = -2
	SF64  Sort = -3
)

func (s Sort) smt() string {
	switch s {
	case SBool:
		return "Bool"
	case SF32:
		return "(_ FloatingPoint 8 24)"
	case SF64:
		return "(_ FloatingPoint 11 53)"
	}
	return fmt.Sprintf("(_ BitVec %d)", int(s))
}

type Op uint8

const (
	OConst Op = iota
	OSym
	ONot
	OAnd
	OOr
	OIte
	OEq
	OAdd
	OSub
	OMul
	OUDiv
	OURem
	OSDiv
	OSRem
	OBAnd
	OBOr
	OBXor
	OShl
	OLShr
	OAShr
	OBNot
	ONeg
	OUlt
	OUle
	OSlt
	OSle
	OExtract // k = hi<<16 | lo
	OZext
	OSext
	OConcat
	// floating point
	OFAdd
	OFSub
	OFMul
	OFDiv
	OFNeg
	OFLt
	OFLe
	OFEq
	OFIsNaN
	OFIsInf
	OFToSBV  // float -> signed bv (round toward zero), sort = target bv
	OFToUBV  // float -> unsigned bv
	OSBVToF  // signed bv -> float
	OUBVToF  // unsigned bv -> float
	OFToF    // float -> float (RNE)
	OBitsToF // bv bits -> float
	OFToBits // float -> bv bits (fp.to_ieee_bv)
	OUF      // uninterpreted function, name in name
)

var opSMT = map[Op]string{
	ONot: "not", OAnd: "and", OOr: "or", OIte: "ite", OEq: "=",
	OAdd: "bvadd", OSub: "bvsub", OMul: "bvmul", OUDiv: "bvudiv", OURem: "bvurem",
	OSDiv: "bvsdiv", OSRem: "bvsrem", OBAnd: "bvand", OBOr: "bvor", OBXor: "bvxor",
	OShl: "bvshl", OLShr: "bvlshr", OAShr: "bvashr", OBNot: "bvnot", ONeg: "bvneg",
	OUlt: "bvult", OUle: "bvule", OSlt: "bvslt", OSle: "bvsle", OConcat: "concat",
	OFAdd: "fp.add RNE", OFSub: "fp.sub RNE", OFMul: "fp.mul RNE", OFDiv: "fp.div RNE",
	OFNeg: "fp.neg", OFLt: "fp.lt", OFLe: "fp.leq", OFEq: "fp.eq", OFIsNaN: "fp.isNaN", OFIsInf: "fp.isInfinite",
}

type Term struct {
	id   int32
	op   Op
	sort Sort
	a, b *Term
	c    *Term
	k    uint64   // constant value (<=64 bits), extract hi/lo
	big  *big.Int // constant value for width > 64
	name string   // symbol / UF name
	args []*Term  // UF args
	// support: the single symbol the term depends on (supSym), or supMulti when
	// it depends on several symbols or on an uninterpreted function.
	supSym   *Term
	supMulti bool
	hasUF    bool // contains an uninterpreted-function application: model evaluation is not reliable
}

func (t *Term) isConst() bool { return t.op == OConst }

type termKey struct {
	op      Op
	sort    Sort
	a, b, c int32
	k       uint64
	name    string
}

// TermTable hash-conses the terms of one run. Creation order (and hence ids)
// is a deterministic function of the path taken.
type TermTable struct {
	terms []*Term
	index map[termKey]*Term
	nsym  int
	syms  []*Term
	True  *Term
	False *Term
}

func NewTermTable() *TermTable {
	tt := &TermTable{index: make(map[termKey]*Term, 1024)}
	tt.True = tt.Const(SBool, 1)
	tt.False = tt.Const(SBool, 0)
	return tt
}

func tid(t *Term) int32 {
	if t == nil {
		return -1
	}
	return t.id
}

func (tt *TermTable) intern(op Op, sort Sort, a, b, c *Term, k uint64, name string) *Term {
	key := termKey{op, sort, tid(a), tid(b), tid(c), k, name}
	if t, ok := tt.index[key]; ok {
		return t
	}
	t := &Term{id: int32(len(tt.terms)), op: op, sort: sort, a: a, b: b, c: c, k: k, name: name}
	if op == OSym {
		t.supSym = t
	} else {
		for _, x := range [3]*Term{a, b, c} {
			if x == nil {
				continue
			}
			if x.hasUF {
				t.hasUF = true
			}
			if x.supMulti {
				t.supMulti = true
			} else if x.supSym != nil {
				if t.supSym == nil {
					t.supSym = x.supSym
				} else if t.supSym != x.supSym {
					t.supMulti = true
				}
			}
		}
		if t.supMulti {
			t.supSym = nil
		}
	}
	tt.terms = append(tt.terms, t)
	tt.index[key] = t
	return t
}

func mask(w Sort) uint64 {
	if w >= 64 {
		return ^uint64(0)
	}
	return (uint64(1) << uint(w)) - 1
}

func (tt *TermTable) Const(sort Sort, v uint64) *Term {
	if sort > 0 && sort <= 64 {
		v &= mask(sort)
	}
	if sort > 64 {
		return tt.BigConst(sort, new(big.Int).SetUint64(v))
	}
	return tt.intern(OConst, sort, nil, nil, nil, v, "")
}

func (tt *TermTable) BigConst(sort Sort, v *big.Int) *Term {
	m := new(big.Int).Lsh(big.NewInt(1), uint(sort))
	v = new(big.Int).Mod(v, m)
	if sort <= 64 {
		return tt.Const(sort, v.Uint64())
	}
	name := v.Text(16)
	key := termKey{OConst, sort, -1, -1, -1, 0, name}
	if t, ok := tt.index[key]; ok {
		return t
	}
	t := &Term{id: int32(len(tt.terms)), op: OConst, sort: sort, big: v, name: name}
	tt.terms = append(tt.terms, t)
	tt.index[key] = t
	return t
}

func (tt *TermTable) Bool(b bool) *Term {
	if b {
		return tt.True
	}
	return tt.False
}

// Sym creates a fresh symbol; names are deterministic in creation order.
func (tt *TermTable) Sym(sort Sort, hint string) *Term {
	var pfx string
	switch {
	case sort == SBool:
		pfx = "p"
	case sort == SF32:
		pfx = "f"
	case sort == SF64:
		pfx = "d"
	default:
		pfx = fmt.Sprintf("v%d_", int(sort))
	}
	name := fmt.Sprintf("%s%d", pfx, tt.nsym)
	tt.nsym++
	t := tt.intern(OSym, sort, nil, nil, nil, 0, name)
	tt.syms = append(tt.syms, t)
	return t
}

func (tt *TermTable) UF(name string, sort Sort, args ...*Term) *Term {
	var sb strings.Builder
	sb.WriteString(name)
	for _, a := range args {
		fmt.Fprintf(&sb, ",%d", a.id)
	}
	key := termKey{OUF, sort, -1, -1, -1, 0, sb.String()}
	if t, ok := tt.index[key]; ok {
		return t
	}
	t := &Term{id: int32(len(tt.terms)), op: OUF, sort: sort, name: name, args: append([]*Term(nil), args...), supMulti: true, hasUF: true}
	tt.terms = append(tt.terms, t)
	tt.index[key] = t
	return t
}

func sext64(v uint64, w Sort) int64 {
	if w >= 64 {
		return int64(v)
	}
	sh := uint(64 - w)
	return int64(v<<sh) >> sh
}

func (tt *TermTable) Not(a *Term) *Term {
	if a.op == OConst {
		return tt.Bool(a.k == 0)
	}
	if a.op == ONot {
		return a.a
	}
	return tt.intern(ONot, SBool, a, nil, nil, 0, "")
}

func (tt *TermTable) And(a, b *Term) *Term {
	if a.op == OConst {
		if a.k == 0 {
			return tt.False
		}
		return b
	}
	if b.op == OConst {
		if b.k == 0 {
			return tt.False
		}
		return a
	}
	if a == b {
		return a
	}
	if a.id > b.id {
		a, b = b, a
	}
	return tt.intern(OAnd, SBool, a, b, nil, 0, "")
}

func (tt *TermTable) Or(a, b *Term) *Term {
	if a.op == OConst {
		if a.k != 0 {
			return tt.True
		}
		return b
	}
	if b.op == OConst {
		if b.k != 0 {
			return tt.True
		}
		return a
	}
	if a == b {
		return a
	}
	if a.id > b.id {
		a, b = b, a
	}
	return tt.intern(OOr, SBool, a, b, nil, 0, "")
}

func (tt *TermTable) Ite(c, a, b *Term) *Term {
	if c.op == OConst {
		if c.k != 0 {
			return a
		}
		return b
	}
	if a == b {
		return a
	}
	if a.sort == SBool && a.op == OConst && b.op == OConst {
		if a.k != 0 {
			return c
		}
		return tt.Not(c)
	}
	if c.op == ONot {
		return tt.intern(OIte, a.sort, c.a, b, a, 0, "")
	}
	return tt.intern(OIte, a.sort, c, a, b, 0, "")
}

func (tt *TermTable) Eq(a, b *Term) *Term {
	if a == b {
		return tt.True
	}
	if a.sort != b.sort {
		panic(fmt.Sprintf("Eq sort mismatch %v %v", a.sort, b.sort))
	}
	if a.op == OConst && b.op == OConst {
		if a.big != nil || b.big != nil {
			return tt.Bool(constBig(a).Cmp(constBig(b)) == 0)
		}
		return tt.Bool(a.k == b.k)
	}
	if a.sort == SF32 || a.sort == SF64 {
		panic("Eq on float terms: use FEq")
	}
	if a.sort == SBool {
		if a.op == OConst {
			a, b = b, a
		}
		if b.op == OConst {
			if b.k != 0 {
				return a
			}
			return tt.Not(a)
		}
	}
	// normalise: constant on the right
	if a.op == OConst {
		a, b = b, a
	}
	if b.op == OConst && b.big == nil {
		// eq(zext(x), k)
		if a.op == OZext {
			if b.k&^mask(a.a.sort) != 0 {
				return tt.False
			}
			return tt.Eq(a.a, tt.Const(a.a.sort, b.k))
		}
		// eq(ite(c, k1, k2), k)
		if a.op == OIte && a.b.op == OConst && a.c.op == OConst && a.b.big == nil && a.c.big == nil {
			e1, e2 := a.b.k == b.k, a.c.k == b.k
			switch {
			case e1 && e2:
				return tt.True
			case e1:
				return a.a
			case e2:
				return tt.Not(a.a)
			default:
				return tt.False
			}
		}
	} else if a.id > b.id {
		a, b = b, a
	}
	return tt.intern(OEq, SBool, a, b, nil, 0, "")
}

func constBig(t *Term) *big.Int {
	if t.big != nil {
		return t.big
	}
	return new(big.Int).SetUint64(t.k)
}

func bigSigned(v *big.Int, w Sort) *big.Int {
	if v.Bit(int(w)-1) == 1 {
		m := new(big.Int).Lsh(big.NewInt(1), uint(w))
		return new(big.Int).Sub(v, m)
	}
	return v
}

// foldBV computes a binary bit-vector operation on constants of width w<=64.
func foldBV(op Op, w Sort, x, y uint64) (uint64, bool) {
	m := mask(w)
	switch op {
	case OAdd:
		return (x + y) & m, true
	case OSub:
		return (x - y) & m, true
	case OMul:
		return (x * y) & m, true
	case OUDiv:
		if y == 0 {
			return m, true
		}
		return x / y, true
	case OURem:
		if y == 0 {
			return x, true
		}
		return x % y, true
	case OSDiv:
		sx, sy := sext64(x, w), sext64(y, w)
		if sy == 0 {
			if sx < 0 {
				return 1, true
			}
			return m, true
		}
		if sy == -1 {
			return uint64(-sx) & m, true
		}
		return uint64(sx/sy) & m, true
	case OSRem:
		sx, sy := sext64(x, w), sext64(y, w)
		if sy == 0 {
			return x, true
		}
		if sy == -1 {
			return 0, true
		}
		return uint64(sx%sy) & m, true
	case OBAnd:
		return x & y, true
	case OBOr:
		return x | y, true
	case OBXor:
		return x ^ y, true
	case OShl:
		if y >= uint64(w) {
			return 0, true
		}
		return (x << y) & m, true
	case OLShr:
		if y >= uint64(w) {
			return 0, true
		}
		return x >> y, true
	case OAShr:
		sx := sext64(x, w)
		if y >= uint64(w) {
			y = uint64(w) - 1
		}
		return uint64(sx>>y) & m, true
	}
	return 0, false
}

func foldBigBV(op Op, w Sort, x, y *big.Int) *big.Int {
	r := new(big.Int)
	switch op {
	case OAdd:
		r.Add(x, y)
	case OSub:
		r.Sub(x, y)
	case OMul:
		r.Mul(x, y)
	case OBAnd:
		r.And(x, y)
	case OBOr:
		r.Or(x, y)
	case OBXor:
		r.Xor(x, y)
	case OShl:
		if !y.IsUint64() || y.Uint64() >= uint64(w) {
			return big.NewInt(0)
		}
		r.Lsh(x, uint(y.Uint64()))
	case OLShr:
		if !y.IsUint64() || y.Uint64() >= uint64(w) {
			return big.NewInt(0)
		}
		r.Rsh(x, uint(y.Uint64()))
	case OAShr:
		sx := bigSigned(x, w)
		n := uint(w) - 1
		if y.IsUint64() && y.Uint64() < uint64(w) {
			n = uint(y.Uint64())
		}
		r.Rsh(sx, n)
	case OUDiv:
		if y.Sign() == 0 {
			return new(big.Int).Sub(new(big.Int).Lsh(big.NewInt(1), uint(w)), big.NewInt(1))
		}
		r.Quo(x, y)
	case OURem:
		if y.Sign() == 0 {
			return x
		}
		r.Rem(x, y)
	case OSDiv:
		sx, sy := bigSigned(x, w), bigSigned(y, w)
		if sy.Sign() == 0 {
			if sx.Sign() < 0 {
				return big.NewInt(1)
			}
			return new(big.Int).Sub(new(big.Int).Lsh(big.NewInt(1), uint(w)), big.NewInt(1))
		}
		r.Quo(sx, sy)
	case OSRem:
		sx, sy := bigSigned(x, w), bigSigned(y, w)
		if sy.Sign() == 0 {
			return x
		}
		r.Rem(sx, sy)
	default:
		return nil
	}
	return r
}

func (tt *TermTable) Bin(op Op, a, b *Term) *Term {
	if a.sort != b.sort {
		panic(fmt.Sprintf("Bin %v sort mismatch %v %v", op, a.sort, b.sort))
	}
	w := a.sort
	if a.op == OConst && b.op == OConst {
		if w > 64 {
			if r := foldBigBV(op, w, constBig(a), constBig(b)); r != nil {
				return tt.BigConst(w, r)
			}
		} else if r, ok := foldBV(op, w, a.k, b.k); ok {
			return tt.Const(w, r)
		}
	}
	if w <= 64 {
		// identities
		switch op {
		case OAdd, OBOr, OBXor:
			if a.op == OConst && a.k == 0 {
				return b
			}
			if b.op == OConst && b.k == 0 {
				return a
			}
		case OSub, OShl, OLShr, OAShr:
			if b.op == OConst && b.k == 0 {
				return a
			}
		case OBAnd:
			if a.op == OConst && a.k == 0 || b.op == OConst && b.k == 0 {
				return tt.Const(w, 0)
			}
			if a.op == OConst && a.k == mask(w) {
				return b
			}
			if b.op == OConst && b.k == mask(w) {
				return a
			}
		case OMul:
			if a.op == OConst && a.k == 1 {
				return b
			}
			if b.op == OConst && b.k == 1 {
				return a
			}
			if a.op == OConst && a.k == 0 || b.op == OConst && b.k == 0 {
				return tt.Const(w, 0)
			}
		}
	}
	switch op {
	case OAdd, OMul, OBAnd, OBOr, OBXor:
		if a.id > b.id {
			a, b = b, a
		}
	}
	return tt.intern(op, w, a, b, nil, 0, "")
}

func (tt *TermTable) Cmp(op Op, a, b *Term) *Term {
	if a.sort != b.sort {
		panic(fmt.Sprintf("Cmp sort mismatch %v %v", a.sort, b.sort))
	}
	w := a.sort
	if a.op == OConst && b.op == OConst {
		if w > 64 {
			x, y := constBig(a), constBig(b)
			if op == OSlt || op == OSle {
				x, y = bigSigned(x, w), bigSigned(y, w)
			}
			c := x.Cmp(y)
			if op == OUlt || op == OSlt {
				return tt.Bool(c < 0)
			}
			return tt.Bool(c <= 0)
		}
		switch op {
		case OUlt:
			return tt.Bool(a.k < b.k)
		case OUle:
			return tt.Bool(a.k <= b.k)
		case OSlt:
			return tt.Bool(sext64(a.k, w) < sext64(b.k, w))
		case OSle:
			return tt.Bool(sext64(a.k, w) <= sext64(b.k, w))
		}
	}
	if a == b {
		return tt.Bool(op == OUle || op == OSle)
	}
	if w <= 64 {
		// comparisons of zero-extended values against constants: narrow them
		if a.op == OZext && b.op == OConst {
			iw := a.a.sort
			fits := b.k&^mask(iw) == 0
			neg := (op == OSlt || op == OSle) && sext64(b.k, w) < 0
			switch {
			case neg:
				return tt.False // zext(x) >= 0 > b
			case fits:
				if op == OSlt {
					op = OUlt
				} else if op == OSle {
					op = OUle
				}
				return tt.Cmp(op, a.a, tt.Const(iw, b.k))
			default:
				return tt.True
			}
		}
		if b.op == OZext && a.op == OConst {
			iw := b.a.sort
			fits := a.k&^mask(iw) == 0
			neg := (op == OSlt || op == OSle) && sext64(a.k, w) < 0
			switch {
			case neg:
				return tt.True
			case fits:
				if op == OSlt {
					op = OUlt
				} else if op == OSle {
					op = OUle
				}
				return tt.Cmp(op, tt.Const(iw, a.k), b.a)
			default:
				return tt.False
			}
		}
		if a.op == OZext && b.op == OZext && a.a.sort == b.a.sort {
			if op == OSlt {
				op = OUlt
			} else if op == OSle {
				op = OUle
			}
			return tt.Cmp(op, a.a, b.a)
		}
		// trivial unsigned bounds
		if op == OUlt && b.op == OConst && b.k == 0 {
			return tt.False
		}
		if op == OUle && a.op == OConst && a.k == 0 {
			return tt.True
		}
		if op == OUle && b.op == OConst && b.k == mask(w) {
			return tt.True
		}
	}
	return tt.intern(op, SBool, a, b, nil, 0, "")
}

func (tt *TermTable) Un(op Op, a *Term) *Term {
	w := a.sort
	if a.op == OConst {
		if w > 64 {
			m := new(big.Int).Sub(new(big.Int).Lsh(big.NewInt(1), uint(w)), big.NewInt(1))
			switch op {
			case OBNot:
				return tt.BigConst(w, new(big.Int).Xor(constBig(a), m))
			case ONeg:
				return tt.BigConst(w, new(big.Int).Neg(constBig(a)))
			}
		} else {
			switch op {
			case OBNot:
				return tt.Const(w, ^a.k)
			case ONeg:
				return tt.Const(w, -a.k)
			}
		}
	}
	if a.op == op {
		return a.a
	}
	return tt.intern(op, w, a, nil, nil, 0, "")
}

func (tt *TermTable) Extract(a *Term, hi, lo int) *Term {
	w := Sort(hi - lo + 1)
	if lo == 0 && w == a.sort {
		return a
	}
	if a.op == OConst {
		if a.big != nil {
			v := new(big.Int).Rsh(a.big, uint(lo))
			return tt.BigConst(w, v)
		}
		return tt.Const(w, a.k>>uint(lo))
	}
	if (a.op == OZext || a.op == OSext) && lo == 0 {
		iw := a.a.sort
		if w == iw {
			return a.a
		}
		if w < iw {
			return tt.Extract(a.a, hi, 0)
		}
		if a.op == OZext {
			return tt.Zext(a.a, w)
		}
		return tt.Sext(a.a, w)
	}
	if a.op == OIte && a.b.op == OConst && a.c.op == OConst {
		return tt.Ite(a.a, tt.Extract(a.b, hi, lo), tt.Extract(a.c, hi, lo))
	}
	return tt.intern(OExtract, w, a, nil, nil, uint64(hi)<<16|uint64(lo), "")
}

func (tt *TermTable) Zext(a *Term, w Sort) *Term {
	if a.sort == w {
		return a
	}
	if a.sort > w {
		return tt.Extract(a, int(w)-1, 0)
	}
	if a.op == OConst {
		if w > 64 {
			return tt.BigConst(w, constBig(a))
		}
		return tt.Const(w, a.k)
	}
	if a.op == OZext {
		return tt.Zext(a.a, w)
	}
	if a.op == OIte && a.b.op == OConst && a.c.op == OConst {
		return tt.Ite(a.a, tt.Zext(a.b, w), tt.Zext(a.c, w))
	}
	return tt.intern(OZext, w, a, nil, nil, 0, "")
}

func (tt *TermTable) Sext(a *Term, w Sort) *Term {
	if a.sort == w {
		return a
	}
	if a.sort > w {
		return tt.Extract(a, int(w)-1, 0)
	}
	if a.op == OConst {
		if w > 64 {
			return tt.BigConst(w, bigSigned(constBig(a), a.sort))
		}
		return tt.Const(w, uint64(sext64(a.k, a.sort)))
	}
	if a.op == OZext {
		return tt.Zext(a.a, w)
	}
	if a.op == OIte && a.b.op == OConst && a.c.op == OConst {
		return tt.Ite(a.a, tt.Sext(a.b, w), tt.Sext(a.c, w))
	}
	return tt.intern(OSext, w, a, nil, nil, 0, "")
}

func (tt *TermTable) Concat(hi, lo *Term) *Term {
	w := hi.sort + lo.sort
	if hi.op == OConst && lo.op == OConst && w <= 64 {
		return tt.Const(w, hi.k<<uint(lo.sort)|lo.k)
	}
	return tt.intern(OConcat, w, hi, lo, nil, 0, "")
}

// ---- floating point ----

func (tt *TermTable) FBin(op Op, a, b *Term) *Term {
	if a.op == OConst && b.op == OConst {
		if a.sort == SF64 {
			x, y := math.Float64frombits(a.k), math.Float64frombits(b.k)
			var r float64
			switch op {
			case OFAdd:
				r = x + y
			case OFSub:
				r = x - y
			case OFMul:
				r = x * y
			case OFDiv:
				r = x / y
			}
			return tt.Const(SF64, math.Float64bits(r))
		}
		x, y := math.Float32frombits(uint32(a.k)), math.Float32frombits(uint32(b.k))
		var r float32
		switch op {
		case OFAdd:
			r = x + y
		case OFSub:
			r = x - y
		case OFMul:
			r = x * y
		case OFDiv:
			r = x / y
		}
		return tt.Const(SF32, uint64(math.Float32bits(r)))
	}
	return tt.intern(op, a.sort, a, b, nil, 0, "")
}

func constFloat(t *Term) float64 {
	if t.sort == SF64 {
		return math.Float64frombits(t.k)
	}
	return float64(math.Float32frombits(uint32(t.k)))
}

func (tt *TermTable) FCmp(op Op, a, b *Term) *Term {
	if a.op == OConst && b.op == OConst {
		x, y := constFloat(a), constFloat(b)
		switch op {
		case OFLt:
			return tt.Bool(x < y)
		case OFLe:
			return tt.Bool(x <= y)
		case OFEq:
			return tt.Bool(x == y)
		}
	}
	return tt.intern(op, SBool, a, b, nil, 0, "")
}

func (tt *TermTable) FUn(op Op, sort Sort, a *Term) *Term {
	if a.op == OConst && a.big == nil {
		switch op {
		case OFNeg:
			if a.sort == SF64 {
				return tt.Const(SF64, a.k^(1<<63))
			}
			return tt.Const(SF32, a.k^(1<<31))
		case OFIsNaN:
			return tt.Bool(math.IsNaN(constFloat(a)))
		case OFIsInf:
			return tt.Bool(math.IsInf(constFloat(a), 0))
		case OFToF:
			if sort == a.sort {
				return a
			}
			if sort == SF32 {
				return tt.Const(SF32, uint64(math.Float32bits(float32(constFloat(a)))))
			}
			return tt.Const(SF64, math.Float64bits(constFloat(a)))
		case OBitsToF:
			return tt.Const(sort, a.k)
		case OFToBits:
			return tt.Const(sort, a.k)
		case OSBVToF:
			v := sext64(a.k, a.sort)
			if sort == SF64 {
				return tt.Const(SF64, math.Float64bits(float64(v)))
			}
			return tt.Const(SF32, uint64(math.Float32bits(float32(v))))
		case OUBVToF:
			if sort == SF64 {
				return tt.Const(SF64, math.Float64bits(float64(a.k)))
			}
			return tt.Const(SF32, uint64(math.Float32bits(float32(a.k))))
		}
	}
	if op == OFToF && sort == a.sort {
		return a
	}
	return tt.intern(op, sort, a, nil, nil, 0, "")
}

// ---- evaluation under a model ----

type Model map[string]uint64

// Evaluator evaluates terms under a model; results are memoised per term id.
type Evaluator struct {
	model Model
	big   map[string]*big.Int
	memo  map[int32]evalRes
	uf    map[string]uint64 // values of UF applications seen in the solver model (by printed key), default 0
}

type evalRes struct {
	v uint64
	b *big.Int
}

func NewEvaluator(m Model) *Evaluator {
	return &Evaluator{model: m, memo: make(map[int32]evalRes, 64)}
}

func (e *Evaluator) EvalBool(t *Term) bool { return e.Eval(t) != 0 }

func (e *Evaluator) Eval(t *Term) uint64 {
	r := e.eval(t)
	if r.b != nil {
		return r.b.Uint64()
	}
	return r.v
}

func (e *Evaluator) bigOf(r evalRes) *big.Int {
	if r.b != nil {
		return r.b
	}
	return new(big.Int).SetUint64(r.v)
}

func b2u(b bool) uint64 {
	if b {
		return 1
	}
	return 0
}

func evalFloat(sort Sort, v uint64) float64 {
	if sort == SF64 {
		return math.Float64frombits(v)
	}
	return float64(math.Float32frombits(uint32(v)))
}

func floatBits(sort Sort, f float64) uint64 {
	if sort == SF64 {
		return math.Float64bits(f)
	}
	return uint64(math.Float32bits(float32(f)))
}

func (e *Evaluator) eval(t *Term) evalRes {
	if t.op == OConst {
		return evalRes{t.k, t.big}
	}
	if r, ok := e.memo[t.id]; ok {
		return r
	}
	r := e.eval1(t)
	e.memo[t.id] = r
	return r
}

func (e *Evaluator) eval1(t *Term) evalRes {
	switch t.op {
	case OSym:
		if t.sort > 64 {
			if e.big != nil {
				if b, ok := e.big[t.name]; ok {
					return evalRes{0, b}
				}
			}
			return evalRes{0, big.NewInt(0)}
		}
		return evalRes{v: e.model[t.name]}
	case OUF:
		return evalRes{v: 0} // models never rely on UF values; see engine notes
	case ONot:
		return evalRes{v: b2u(e.eval(t.a).v == 0)}
	case OAnd:
		return evalRes{v: b2u(e.eval(t.a).v != 0 && e.eval(t.b).v != 0)}
	case OOr:
		return evalRes{v: b2u(e.eval(t.a).v != 0 || e.eval(t.b).v != 0)}
	case OIte:
		if e.eval(t.a).v != 0 {
			return e.eval(t.b)
		}
		return e.eval(t.c)
	case OEq:
		x, y := e.eval(t.a), e.eval(t.b)
		if t.a.sort > 64 {
			return evalRes{v: b2u(e.bigOf(x).Cmp(e.bigOf(y)) == 0)}
		}
		return evalRes{v: b2u(x.v == y.v)}
	case OAdd, OSub, OMul, OUDiv, OURem, OSDiv, OSRem, OBAnd, OBOr, OBXor, OShl, OLShr, OAShr:
		x, y := e.eval(t.a), e.eval(t.b)
		if t.sort > 64 {
			r := foldBigBV(t.op, t.sort, e.bigOf(x), e.bigOf(y))
			m := new(big.Int).Lsh(big.NewInt(1), uint(t.sort))
			return evalRes{b: r.Mod(r, m)}
		}
		r, _ := foldBV(t.op, t.sort, x.v, y.v)
		return evalRes{v: r}
	case OBNot:
		x := e.eval(t.a)
		if t.sort > 64 {
			m := new(big.Int).Sub(new(big.Int).Lsh(big.NewInt(1), uint(t.sort)), big.NewInt(1))
			return evalRes{b: new(big.Int).Xor(e.bigOf(x), m)}
		}
		return evalRes{v: ^x.v & mask(t.sort)}
	case ONeg:
		x := e.eval(t.a)
		if t.sort > 64 {
			m := new(big.Int).Lsh(big.NewInt(1), uint(t.sort))
			r := new(big.Int).Neg(e.bigOf(x))
			return evalRes{b: r.Mod(r, m)}
		}
		return evalRes{v: -x.v & mask(t.sort)}
	case OUlt, OUle, OSlt, OSle:
		x, y := e.eval(t.a), e.eval(t.b)
		w := t.a.sort
		if w > 64 {
			bx, by := e.bigOf(x), e.bigOf(y)
			if t.op == OSlt || t.op == OSle {
				bx, by = bigSigned(bx, w), bigSigned(by, w)
			}
			c := bx.Cmp(by)
			if t.op == OUlt || t.op == OSlt {
				return evalRes{v: b2u(c < 0)}
			}
			return evalRes{v: b2u(c <= 0)}
		}
		switch t.op {
		case OUlt:
			return evalRes{v: b2u(x.v < y.v)}
		case OUle:
			return evalRes{v: b2u(x.v <= y.v)}
		case OSlt:
			return evalRes{v: b2u(sext64(x.v, w) < sext64(y.v, w))}
		default:
			return evalRes{v: b2u(sext64(x.v, w) <= sext64(y.v, w))}
		}
	case OExtract:
		hi, lo := int(t.k>>16), int(t.k&0xffff)
		x := e.eval(t.a)
		if t.a.sort > 64 {
			v := new(big.Int).Rsh(e.bigOf(x), uint(lo))
			m := new(big.Int).Lsh(big.NewInt(1), uint(hi-lo+1))
			v.Mod(v, m)
			if t.sort <= 64 {
				return evalRes{v: v.Uint64()}
			}
			return evalRes{b: v}
		}
		return evalRes{v: (x.v >> uint(lo)) & mask(t.sort)}
	case OZext:
		x := e.eval(t.a)
		if t.sort > 64 {
			return evalRes{b: e.bigOf(x)}
		}
		return evalRes{v: x.v}
	case OSext:
		x := e.eval(t.a)
		if t.sort > 64 {
			m := new(big.Int).Lsh(big.NewInt(1), uint(t.sort))
			r := new(big.Int).Set(bigSigned(e.bigOf(x), t.a.sort))
			return evalRes{b: r.Mod(r, m)}
		}
		return evalRes{v: uint64(sext64(x.v, t.a.sort)) & mask(t.sort)}
	case OConcat:
		x, y := e.eval(t.a), e.eval(t.b)
		if t.sort > 64 {
			r := new(big.Int).Lsh(e.bigOf(x), uint(t.b.sort))
			return evalRes{b: r.Or(r, e.bigOf(y))}
		}
		return evalRes{v: x.v<<uint(t.b.sort) | y.v}
	case OFAdd, OFSub, OFMul, OFDiv:
		x, y := e.eval(t.a).v, e.eval(t.b).v
		if t.sort == SF64 {
			a, b := math.Float64frombits(x), math.Float64frombits(y)
			var r float64
			switch t.op {
			case OFAdd:
				r = a + b
			case OFSub:
				r = a - b
			case OFMul:
				r = a * b
			default:
				r = a / b
			}
			return evalRes{v: math.Float64bits(r)}
		}
		a, b := math.Float32frombits(uint32(x)), math.Float32frombits(uint32(y))
		var r float32
		switch t.op {
		case OFAdd:
			r = a + b
		case OFSub:
			r = a - b
		case OFMul:
			r = a * b
		default:
			r = a / b
		}
		return evalRes{v: uint64(math.Float32bits(r))}
	case OFNeg:
		x := e.eval(t.a).v
		if t.sort == SF64 {
			return evalRes{v: x ^ (1 << 63)}
		}
		return evalRes{v: x ^ (1 << 31)}
	case OFLt, OFLe, OFEq:
		x, y := evalFloat(t.a.sort, e.eval(t.a).v), evalFloat(t.b.sort, e.eval(t.b).v)
		switch t.op {
		case OFLt:
			return evalRes{v: b2u(x < y)}
		case OFLe:
			return evalRes{v: b2u(x <= y)}
		default:
			return evalRes{v: b2u(x == y)}
		}
	case OFIsNaN:
		return evalRes{v: b2u(math.IsNaN(evalFloat(t.a.sort, e.eval(t.a).v)))}
	case OFIsInf:
		return evalRes{v: b2u(math.IsInf(evalFloat(t.a.sort, e.eval(t.a).v), 0))}
	case OFToSBV:
		f := evalFloat(t.a.sort, e.eval(t.a).v)
		return evalRes{v: uint64(int64(f)) & mask(t.sort)}
	case OFToUBV:
		f := evalFloat(t.a.sort, e.eval(t.a).v)
		return evalRes{v: uint64(f) & mask(t.sort)}
	case OSBVToF:
		return evalRes{v: floatBits(t.sort, float64(sext64(e.eval(t.a).v, t.a.sort)))}
	case OUBVToF:
		x := e.eval(t.a).v
		if t.sort == SF32 {
			return evalRes{v: uint64(math.Float32bits(float32(x)))}
		}
		return evalRes{v: math.Float64bits(float64(x))}
	case OFToF:
		return evalRes{v: floatBits(t.sort, evalFloat(t.a.sort, e.eval(t.a).v))}
	case OBitsToF, OFToBits:
		return e.eval(t.a)
	}
	panic(fmt.Sprintf("eval: unhandled op %d", t.op))
}

// ---- SMT-LIB printing ----

func constSMT(t *Term) string {
	switch t.sort {
	case SBool:
		if t.k != 0 {
			return "true"
		}
		return "false"
	case SF64:
		return fmt.Sprintf("((_ to_fp 11 53) #x%016x)", t.k)
	case SF32:
		return fmt.Sprintf("((_ to_fp 8 24) #x%08x)", t.k)
	}
	w := int(t.sort)
	if t.big != nil {
		return fmt.Sprintf("(_ bv%s %d)", t.big.String(), w)
	}
	if w%4 == 0 {
		return fmt.Sprintf("#x%0*x", w/4, t.k)
	}
	return fmt.Sprintf("(_ bv%d %d)", t.k, w)
}

// body prints the defining expression of t with sub-terms given by ref.
func termBody(t *Term, ref func(*Term) string) string {
	switch t.op {
	case OConst:
		return constSMT(t)
	case OSym:
		return t.name
	case OUF:
		var sb strings.Builder
		sb.WriteString("(" + t.name)
		for _, a := range t.args {
			sb.WriteString(" " + ref(a))
		}
		sb.WriteString(")")
		return sb.String()
	case OExtract:
		return fmt.Sprintf("((_ extract %d %d) %s)", t.k>>16, t.k&0xffff, ref(t.a))
	case OZext:
		return fmt.Sprintf("((_ zero_extend %d) %s)", int(t.sort-t.a.sort), ref(t.a))
	case OSext:
		return fmt.Sprintf("((_ sign_extend %d) %s)", int(t.sort-t.a.sort), ref(t.a))
	case OFToSBV:
		return fmt.Sprintf("((_ fp.to_sbv %d) RTZ %s)", int(t.sort), ref(t.a))
	case OFToUBV:
		return fmt.Sprintf("((_ fp.to_ubv %d) RTZ %s)", int(t.sort), ref(t.a))
	case OSBVToF:
		if t.sort == SF64 {
			return fmt.Sprintf("((_ to_fp 11 53) RNE %s)", ref(t.a))
		}
		return fmt.Sprintf("((_ to_fp 8 24) RNE %s)", ref(t.a))
	case OUBVToF:
		if t.sort == SF64 {
			return fmt.Sprintf("((_ to_fp_unsigned 11 53) RNE %s)", ref(t.a))
		}
		return fmt.Sprintf("((_ to_fp_unsigned 8 24) RNE %s)", ref(t.a))
	case OFToF:
		if t.sort == SF64 {
			return fmt.Sprintf("((_ to_fp 11 53) RNE %s)", ref(t.a))
		}
		return fmt.Sprintf("((_ to_fp 8 24) RNE %s)", ref(t.a))
	case OBitsToF:
		if t.sort == SF64 {
			return fmt.Sprintf("((_ to_fp 11 53) %s)", ref(t.a))
		}
		return fmt.Sprintf("((_ to_fp 8 24) %s)", ref(t.a))
	case OFToBits:
		return fmt.Sprintf("(fp.to_ieee_bv %s)", ref(t.a))
	}
	name := opSMT[t.op]
	if name == "" {
		panic(fmt.Sprintf("termBody: op %d", t.op))
	}
	s := "(" + name + " " + ref(t.a)
	if t.b != nil {
		s += " " + ref(t.b)
	}
	if t.c != nil {
		s += " " + ref(t.c)
	}
	return s + ")"
}

// termString prints a fully expanded term (debugging, small terms only).
func termString(t *Term) string {
	return termBody(t, termString)
}

var _ = bits.Len

// collectSyms appends the symbols occurring in t to out.
func collectSyms(t *Term, seen map[int32]bool, out *[]*Term) {
	if t == nil || seen[t.id] {
		return
	}
	seen[t.id] = true
	if t.op == OSym {
		*out = append(*out, t)
		return
	}
	if !t.supMulti && t.supSym != nil {
		if !seen[t.supSym.id] {
			seen[t.supSym.id] = true
			*out = append(*out, t.supSym)
		}
		return
	}
	collectSyms(t.a, seen, out)
	collectSyms(t.b, seen, out)
	collectSyms(t.c, seen, out)
	for _, a := range t.args {
		collectSyms(a, seen, out)
	}
}

// evalUnary evaluates a term that depends on the single symbol sym (width <= 8
// or Bool) for sym = v. memo is indexed by term id and stamped.
type unaryEval struct {
	stamp []uint32
	val   []uint64
	cur   uint32
}

func (u *unaryEval) eval(t *Term, v uint64) uint64 {
	u.cur++
	if u.cur == 0 {
		for i := range u.stamp {
			u.stamp[i] = 0
		}
		u.cur = 1
	}
	return u.ev(t, v)
}

func (u *unaryEval) ev(t *Term, v uint64) uint64 {
	switch t.op {
	case OConst:
		return t.k
	case OSym:
		return v
	}
	id := int(t.id)
	if id >= len(u.stamp) {
		n := id*2 + 64
		ns := make([]uint32, n)
		copy(ns, u.stamp)
		nv := make([]uint64, n)
		copy(nv, u.val)
		u.stamp, u.val = ns, nv
	}
	if u.stamp[id] == u.cur {
		return u.val[id]
	}
	if t.sort > 64 || t.sort == SF32 || t.sort == SF64 {
		panic(errNotUnaryEvaluable)
	}
	var r uint64
	switch t.op {
	case ONot:
		r = u.ev(t.a, v) ^ 1
	case OAnd:
		r = u.ev(t.a, v) & u.ev(t.b, v)
	case OOr:
		r = u.ev(t.a, v) | u.ev(t.b, v)
	case OIte:
		if u.ev(t.a, v) != 0 {
			r = u.ev(t.b, v)
		} else {
			r = u.ev(t.c, v)
		}
	case OEq:
		r = b2u(u.ev(t.a, v) == u.ev(t.b, v))
	case OAdd, OSub, OMul, OUDiv, OURem, OSDiv, OSRem, OBAnd, OBOr, OBXor, OShl, OLShr, OAShr:
		r, _ = foldBV(t.op, t.sort, u.ev(t.a, v), u.ev(t.b, v))
	case OBNot:
		r = ^u.ev(t.a, v) & mask(t.sort)
	case ONeg:
		r = -u.ev(t.a, v) & mask(t.sort)
	case OUlt:
		r = b2u(u.ev(t.a, v) < u.ev(t.b, v))
	case OUle:
		r = b2u(u.ev(t.a, v) <= u.ev(t.b, v))
	case OSlt:
		r = b2u(sext64(u.ev(t.a, v), t.a.sort) < sext64(u.ev(t.b, v), t.a.sort))
	case OSle:
		r = b2u(sext64(u.ev(t.a, v), t.a.sort) <= sext64(u.ev(t.b, v), t.a.sort))
	case OExtract:
		r = (u.ev(t.a, v) >> uint(t.k&0xffff)) & mask(t.sort)
	case OZext:
		r = u.ev(t.a, v)
	case OSext:
		r = uint64(sext64(u.ev(t.a, v), t.a.sort)) & mask(t.sort)
	case OConcat:
		r = u.ev(t.a, v)<<uint(t.b.sort) | u.ev(t.b, v)
	default:
		panic(errNotUnaryEvaluable)
	}
	u.stamp[id] = u.cur
	u.val[id] = r
	return r
}

var errNotUnaryEvaluable = fmt.Errorf("term not evaluable by the byte-domain procedure")

// unaryOK reports whether the byte-domain procedure applies to t: it depends
// on exactly one symbol of width <= 8 (or Bool) and every node is at most 64
// bits wide and not floating point.
func unaryOK(t *Term) bool {
	if t.supMulti || t.supSym == nil {
		return false
	}
	s := t.supSym.sort
	return s == SBool || (s > 0 && s <= 8)
}
