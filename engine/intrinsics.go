package main

import (
	"fmt"
	"go/types"
	"runtime/debug"
	"strings"
	"sync"
	"unicode"

	"golang.org/x/tools/go/ssa"
)

// modelMap maps functions that cannot be executed from their own SSA
// (assembly, unsafe, runtime internals) to reference bodies in the vmodels
// package, which are executed symbolically like any other code.
var modelMap = map[string]string{
	"internal/bytealg.IndexByte":           "IndexByte",
	"internal/bytealg.IndexByteString":     "IndexByteString",
	"internal/bytealg.Index":               "Index",
	"internal/bytealg.IndexString":         "IndexString",
	"internal/bytealg.Count":               "Count",
	"internal/bytealg.CountString":         "CountString",
	"internal/bytealg.Equal":               "Equal",
	"internal/bytealg.Compare":             "Compare",
	"internal/bytealg.LastIndexByte":       "LastIndexByte",
	"internal/bytealg.LastIndexByteString": "LastIndexByteString",
	"internal/bytealg.IndexRabinKarp":      "IndexString",
	"internal/bytealg.MakeNoZero":          "MakeNoZero",
	"strings.Index":                        "IndexString",
	"strings.IndexByte":                    "IndexByteString",
	"strings.LastIndex":                    "LastIndexString",
	"strings.Count":                        "CountStringAny",
	"bytes.Index":                          "Index",
	"bytes.IndexByte":                      "IndexByte",
	"bytes.Equal":                          "Equal",
	"bytes.Compare":                        "Compare",
	"strings.Compare":                      "CompareString",
	"internal/stringslite.Index":           "IndexString",
	"internal/stringslite.IndexByte":       "IndexByteString",
	"internal/stringslite.HasPrefix":       "HasPrefix",
	"internal/stringslite.HasSuffix":       "HasSuffix",
	"internal/stringslite.Clone":           "CloneString",
	"strings.Clone":                        "CloneString",
	"html.UnescapeString":                  "HTMLUnescape",
	"fmt.Sprintf":                          "Sprintf",
	"errors.Is":                            "ErrorsIs",
	"fmt.Errorf":                           "Errorf",
	"fmt.Sprint":                           "Sprint",
	"fmt.Sprintln":                         "Sprintln",
}

func noop(it *Interp, fn *ssa.Function, args []Value) Value { return Value{} }

var nativeIntrinsics = map[string]intrinsic{
	"(*sync.Mutex).Lock":      noop,
	"(*sync.Mutex).Unlock":    noop,
	"(*sync.RWMutex).Lock":    noop,
	"(*sync.RWMutex).Unlock":  noop,
	"(*sync.RWMutex).RLock":   noop,
	"(*sync.RWMutex).RUnlock": noop,
	"(*sync.Once).Do": func(it *Interp, fn *ssa.Function, args []Value) Value {
		c := it.cellOf(args[0])
		// first field "done" (atomic.Uint32 or similar): use a side table
		if it.onceDone == nil {
			it.onceDone = map[*Cell]bool{}
		}
		if !it.onceDone[c] {
			it.onceDone[c] = true
			it.callValue(args[1], nil, nil, nil)
		}
		return Value{}
	},
	"(*strings.Builder).copyCheck": noop,
	"(*strings.Builder).String": func(it *Interp, fn *ssa.Function, args []Value) Value {
		c := it.cellOf(args[0])
		sl, _ := c.sub[1].v.Ref.(Slice)
		bs := make([]Value, sl.n)
		for i := range bs {
			bs[i] = sl.c[i].v
		}
		return mkStrBytes(bs)
	},
	"github.com/open2b/scriggo/internal/vmodels.Unsupported": func(it *Interp, fn *ssa.Function, args []Value) Value {
		msg := "model"
		if s, ok := args[0].Ref.(*Str); ok && s.Concrete() {
			msg = s.s
		}
		it.unsupported(msg)
		return Value{}
	},
	"github.com/open2b/scriggo/internal/vmodels.IsComparable": func(it *Interp, fn *ssa.Function, args []Value) Value {
		ifc, _ := args[0].Ref.(*Iface)
		if ifc == nil {
			return Value{Bits: 1}
		}
		return Value{Bits: b2u(types.Comparable(ifc.t))}
	},
	"math.Float64bits": func(it *Interp, fn *ssa.Function, args []Value) Value {
		if args[0].Ref == nil {
			return Value{Bits: args[0].Bits}
		}
		return fromTerm(it.tt.FUn(OFToBits, 64, args[0].Ref.(*Term)))
	},
	"math.Float32bits": func(it *Interp, fn *ssa.Function, args []Value) Value {
		if args[0].Ref == nil {
			return Value{Bits: args[0].Bits & 0xffffffff}
		}
		return fromTerm(it.tt.FUn(OFToBits, 32, args[0].Ref.(*Term)))
	},
	"math.Float64frombits": func(it *Interp, fn *ssa.Function, args []Value) Value {
		if args[0].Ref == nil {
			return Value{Bits: args[0].Bits}
		}
		return fromTerm(it.tt.FUn(OBitsToF, SF64, args[0].Ref.(*Term)))
	},
	"math.Float32frombits": func(it *Interp, fn *ssa.Function, args []Value) Value {
		if args[0].Ref == nil {
			return Value{Bits: args[0].Bits & 0xffffffff}
		}
		return fromTerm(it.tt.FUn(OBitsToF, SF32, args[0].Ref.(*Term)))
	},
	"runtime.Gosched":      noop,
	"runtime.KeepAlive":    noop,
	"runtime.SetFinalizer": noop,
	"unicode.IsLetter":     unicodePred("IsLetter", unicode.IsLetter),
	"unicode.IsDigit":      unicodePred("IsDigit", unicode.IsDigit),
	"unicode.IsNumber":     unicodePred("IsNumber", unicode.IsNumber),
	"unicode.IsUpper":      unicodePred("IsUpper", unicode.IsUpper),
	"unicode.IsLower":      unicodePred("IsLower", unicode.IsLower),
	"unicode.IsTitle":      unicodePred("IsTitle", unicode.IsTitle),
	"unicode.IsSpace":      unicodePred("IsSpace", unicode.IsSpace),
	"unicode.IsPrint":      unicodePred("IsPrint", unicode.IsPrint),
	"unicode.IsGraphic":    unicodePred("IsGraphic", unicode.IsGraphic),
	"unicode.IsPunct":      unicodePred("IsPunct", unicode.IsPunct),
	"unicode.IsControl":    unicodePred("IsControl", unicode.IsControl),
	"unicode.IsSymbol":     unicodePred("IsSymbol", unicode.IsSymbol),
	"unicode.IsMark":       unicodePred("IsMark", unicode.IsMark),
	"unicode.ToUpper":      unicodeMap("ToUpper", unicode.ToUpper),
	"unicode.ToLower":      unicodeMap("ToLower", unicode.ToLower),
	"unicode.ToTitle":      unicodeMap("ToTitle", unicode.ToTitle),
	"unicode.SimpleFold":   unicodeMap("SimpleFold", unicode.SimpleFold),
}

// Unicode classification of a symbolic rune: exact for every rune. The
// predicate is tabulated once over the whole code space into runs of true.
type predRun struct{ lo, hi rune }

var predRuns sync.Map // name -> []predRun

func predRunsOf(name string, f func(rune) bool) []predRun {
	if v, ok := predRuns.Load(name); ok {
		return v.([]predRun)
	}
	var runs []predRun
	for r := rune(0); r <= unicode.MaxRune; r++ {
		if !f(r) {
			continue
		}
		if n := len(runs); n > 0 && runs[n-1].hi == r-1 {
			runs[n-1].hi = r
			continue
		}
		runs = append(runs, predRun{r, r})
	}
	predRuns.Store(name, runs)
	return runs
}

func unicodePred(name string, f func(rune) bool) intrinsic {
	return func(it *Interp, fn *ssa.Function, args []Value) Value {
		r := args[0]
		if r.Ref == nil {
			return Value{Bits: b2u(f(rune(int32(r.Bits))))}
		}
		t := r.Ref.(*Term)
		tt := it.tt
		// balanced disjunction of range tests (a flat chain of several hundred
		// ranges would nest too deeply for the solver's parser)
		runs := predRunsOf(name, f)
		var build func(lo, hi int) *Term
		build = func(lo, hi int) *Term {
			if lo >= hi {
				return tt.False
			}
			if hi-lo == 1 {
				run := runs[lo]
				if run.lo == run.hi {
					return tt.Eq(t, tt.Const(32, uint64(run.lo)))
				}
				return tt.And(tt.Cmp(OUle, tt.Const(32, uint64(run.lo)), t), tt.Cmp(OUle, t, tt.Const(32, uint64(run.hi))))
			}
			mid := (lo + hi) / 2
			// binary decision on the rune value keeps the term shallow
			return tt.Ite(tt.Cmp(OUlt, t, tt.Const(32, uint64(runs[mid].lo))), build(lo, mid), build(mid, hi))
		}
		return fromTerm(build(0, len(runs)))
	}
}

// unicodeMap: a case mapping is exact for every rune: the function is
// tabulated once over the whole code space into runs of constant offset.
type caseRun struct {
	lo, hi rune
	d      int32
}

var caseRuns sync.Map // name -> []caseRun

func caseRunsOf(name string, f func(rune) rune) []caseRun {
	if v, ok := caseRuns.Load(name); ok {
		return v.([]caseRun)
	}
	var runs []caseRun
	for r := rune(0); r <= unicode.MaxRune; r++ {
		d := int32(f(r) - r)
		if d == 0 {
			continue
		}
		if n := len(runs); n > 0 && runs[n-1].hi == r-1 && runs[n-1].d == d {
			runs[n-1].hi = r
			continue
		}
		runs = append(runs, caseRun{r, r, d})
	}
	caseRuns.Store(name, runs)
	return runs
}

func unicodeMap(name string, f func(rune) rune) intrinsic {
	return func(it *Interp, fn *ssa.Function, args []Value) Value {
		r := args[0]
		if r.Ref == nil {
			return Value{Bits: uint64(uint32(f(rune(int32(r.Bits)))))}
		}
		t := r.Ref.(*Term)
		tt := it.tt
		runs := caseRunsOf(name, f)
		var build func(lo, hi int) *Term
		build = func(lo, hi int) *Term {
			if lo >= hi {
				return t
			}
			if hi-lo == 1 {
				run := runs[lo]
				var in *Term
				if run.lo == run.hi {
					in = tt.Eq(t, tt.Const(32, uint64(run.lo)))
				} else {
					in = tt.And(tt.Cmp(OUle, tt.Const(32, uint64(run.lo)), t), tt.Cmp(OUle, t, tt.Const(32, uint64(run.hi))))
				}
				return tt.Ite(in, tt.Bin(OAdd, t, tt.Const(32, uint64(uint32(run.d)))), t)
			}
			mid := (lo + hi) / 2
			return tt.Ite(tt.Cmp(OUlt, t, tt.Const(32, uint64(runs[mid].lo))), build(lo, mid), build(mid, hi))
		}
		res := build(0, len(runs))
		return fromTerm(res)
	}
}

func lookupIntrinsicByName(eng *Engine, fn *ssa.Function) intrinsic {
	return nil
}

// buildIntrinsics resolves, once, the functions that are intercepted.
func (eng *Engine) buildIntrinsics() {
	eng.intr = map[*ssa.Function]intrinsic{}
	bigIntr := bigIntrinsics()
	for k, v := range reflectValueIntrinsics() {
		bigIntr[k] = v
	}
	for k, v := range reflectValueIntrinsics2() {
		bigIntr[k] = v
	}
	all := allFunctions(eng.prog)
	for fn := range all {
		name := fn.String()
		short := fn.Name()
		if strings.HasPrefix(short, "vsym_") || strings.HasPrefix(short, "vopt_") || short == "vassume" || short == "vassert" ||
			short == "vreach" || short == "vand" || short == "vor" || short == "vite" || short == "vsymbolic" || short == "vconc" || short == "vfail" {
			if fn.Signature.Recv() == nil && fn.Parent() == nil {
				nm := short
				eng.intr[fn] = func(it *Interp, f *ssa.Function, args []Value) Value {
					v, _ := it.harnessCall(nm, f, args)
					return v
				}
				continue
			}
		}
		if in, ok := nativeIntrinsics[name]; ok {
			eng.intr[fn] = in
			continue
		}
		if in, ok := bigIntr[name]; ok {
			eng.intr[fn] = in
			continue
		}
		// every other exported entry point of math/big is outside the model: it must
		// not run on the real representation, which the model does not maintain
		if fn.Pkg != nil && fn.Pkg.Pkg.Path() == "math/big" && fn.Object() != nil && fn.Object().Exported() {
			nm := name
			eng.intr[fn] = func(it *Interp, f *ssa.Function, args []Value) Value {
				if it.initMode {
					panic(engineAbort{"unsupported", "math/big function outside the model: " + nm})
				}
				it.unsupported("math/big function outside the model: " + nm)
				return Value{}
			}
			continue
		}
		if m, ok := modelMap[name]; ok {
			if m == "" {
				eng.intr[fn] = noop
				continue
			}
			if eng.modelsPkg == nil {
				continue
			}
			mf := eng.modelsPkg.Func(m)
			if mf == nil {
				panic("model function missing: " + m)
			}
			eng.intr[fn] = func(it *Interp, f *ssa.Function, args []Value) Value {
				return it.callFunction(mf, args, nil, nil)
			}
			continue
		}
		if in := reflectIntrinsic(eng, fn, name); in != nil {
			eng.intr[fn] = in
			continue
		}
		if reflectOutsideModel(fn) {
			nm := name
			eng.intr[fn] = func(it *Interp, f *ssa.Function, args []Value) Value {
				it.unsupported("reflect function outside the model: " + nm)
				return Value{}
			}
		}
	}
}

func allFunctions(prog *ssa.Program) map[*ssa.Function]bool {
	seen := map[*ssa.Function]bool{}
	var visit func(fn *ssa.Function)
	visit = func(fn *ssa.Function) {
		if fn == nil || seen[fn] {
			return
		}
		seen[fn] = true
		for _, a := range fn.AnonFuncs {
			visit(a)
		}
	}
	for _, pkg := range prog.AllPackages() {
		for _, m := range pkg.Members {
			switch m := m.(type) {
			case *ssa.Function:
				visit(m)
			case *ssa.Type:
				t := m.Type()
				for _, tt := range []types.Type{t, types.NewPointer(t)} {
					ms := prog.MethodSets.MethodSet(tt)
					for i := 0; i < ms.Len(); i++ {
						visit(prog.MethodValue(ms.At(i)))
					}
				}
			}
		}
	}
	return seen
}

// ---- globals and package initialisation ----

func (it *Interp) globalCell(g *ssa.Global) *Cell {
	if it.localGlobals != nil {
		if c, ok := it.localGlobals[g]; ok {
			return c
		}
	}
	eng := it.eng
	if it.initMode {
		// already holding the init lock
		return eng.globalCellLocked(g)
	}
	eng.globalsMu.Lock()
	defer eng.globalsMu.Unlock()
	return eng.globalCellLocked(g)
}

func (eng *Engine) globalCellLocked(g *ssa.Global) *Cell {
	if c, ok := eng.globals[g]; ok {
		return c
	}
	pkg := g.Pkg
	if !eng.initDone[pkg] {
		eng.initDone[pkg] = true
		// allocate all globals of the package, then run its initialiser
		for _, m := range pkg.Members {
			if gg, ok := m.(*ssa.Global); ok {
				eng.globals[gg] = newCell(gg.Type().Underlying().(*types.Pointer).Elem(), 0)
			}
		}
		eng.runInit(pkg)
	}
	c, ok := eng.globals[g]
	if !ok {
		c = newCell(g.Type().Underlying().(*types.Pointer).Elem(), 0)
		eng.globals[g] = c
	}
	return c
}

// runInit executes the synthetic init function of pkg concretely, in tolerant
// mode: a call that the engine cannot execute yields a poisoned value.
func (eng *Engine) runInit(pkg *ssa.Package) {
	initFn := pkg.Func("init")
	if initFn == nil || initFn.Blocks == nil {
		return
	}
	it := newInterp(eng, nil)
	it.epoch = 0
	it.initMode = true
	it.stepBudget = 50_000_000
	func() {
		defer func() {
			if r := recover(); r != nil {
				if eng.verbose {
					fmt.Printf("init of %s stopped: %v\n%s\n", pkg.Pkg.Path(), r, debug.Stack())
				}
			}
		}()
		it.callFunction(initFn, nil, nil, nil)
	}()
}
