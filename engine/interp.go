package main

import (
	"fmt"
	"go/token"
	"go/types"
	"strings"
	"sync"

	"golang.org/x/tools/go/ssa"
)

type engineAbort struct {
	kind string // unsupported | budget | internal
	msg  string
}

// goPanic is a panic of the interpreted program.
type goPanic struct {
	val       Value // interface value (*Iface) passed to panic
	goroutine bool  // escaped from a goroutine: cannot be recovered by anybody
	where     string
}

type fnInfo struct {
	idx   map[ssa.Value]int
	nregs int
}

type deferred struct {
	fn   Value
	args []Value
	inv  *ssa.CallCommon // for invoke-mode defers
}

type Frame struct {
	fn      *ssa.Function
	info    *fnInfo
	regs    []Value
	defers  []deferred
	panic   *goPanic
	running bool   // running deferred calls
	deferOf *Frame // this frame is a deferred call of that frame
	caller  *Frame
}

type Engine struct {
	prog            *ssa.Program
	fset            *token.FileSet
	pkgs            map[string]*ssa.Package
	infoMu          sync.Mutex
	infos           map[*ssa.Function]*fnInfo
	intr            map[*ssa.Function]intrinsic
	solverBin       string
	logic           string
	solverTimeoutMs int
	fallbackMs      int
	smtLog          string
	globalsMu       sync.Mutex
	globals         map[*ssa.Global]*Cell
	initDone        map[*ssa.Package]bool
	consts          sync.Map // *ssa.Const -> Value
	verbose         bool
	modelsPkg       *ssa.Package
	owners          map[*Cell]cellOwner
	tokMu           sync.Mutex
	genIntr         sync.Map // *ssa.Function (instantiation) -> intrinsic or nil
	bigMu           sync.Mutex
	bigInit         map[*Cell]bigVal
	typeTokens      map[string]*typeToken
	ownersN         int
}

type Interp struct {
	eng          *Engine
	pr           *PathRun
	tt           *TermTable
	epoch        int32
	goLeak       bool            // check at harness end that no channel holds more than its buffer
	mapAssign    bool            // the current map operation is an assignment
	chans        []*ChanObj      // channels made on this path
	cow          map[*Cell]Value // path-local overlay over frozen heap cells
	steps        int
	stepBudget   int
	entered      map[*ssa.Function]bool
	depth        int
	cur          *Frame
	initMode     bool
	lastPos      token.Pos
	mapOrder     bool
	onceDone     map[*Cell]bool
	localGlobals map[*ssa.Global]*Cell // path-local copies of assigned globals
	bigs         map[*Cell]bigVal      // math/big.Int values (see bigmodel.go)
}

type outcome struct {
	kind string // ok | pruned | abort | violation
	msg  string
	viol *Violation
}

func newInterp(eng *Engine, pr *PathRun) *Interp {
	it := &Interp{eng: eng, pr: pr, epoch: 1, entered: map[*ssa.Function]bool{}}
	if pr != nil {
		it.tt = pr.tt
	} else {
		it.tt = NewTermTable()
	}
	return it
}

func (it *Interp) unsupported(msg string) {
	panic(engineAbort{"unsupported", msg})
}

func (eng *Engine) info(fn *ssa.Function) *fnInfo {
	eng.infoMu.Lock()
	defer eng.infoMu.Unlock()
	if fi, ok := eng.infos[fn]; ok {
		return fi
	}
	fi := &fnInfo{idx: map[ssa.Value]int{}}
	n := 0
	for _, p := range fn.Params {
		fi.idx[p] = n
		n++
	}
	for _, p := range fn.FreeVars {
		fi.idx[p] = n
		n++
	}
	for _, b := range fn.Blocks {
		for _, ins := range b.Instrs {
			if v, ok := ins.(ssa.Value); ok {
				fi.idx[v] = n
				n++
			}
		}
	}
	fi.nregs = n
	eng.infos[fn] = fi
	return fi
}

func (it *Interp) pos() string {
	if it.lastPos.IsValid() {
		p := it.eng.fset.Position(it.lastPos)
		return fmt.Sprintf("%s:%d", p.Filename, p.Line)
	}
	return ""
}

// runHarness executes the named harness function on the current path.
func (it *Interp) runHarness(name string) (out outcome) {
	fn := it.eng.findHarness(name)
	defer func() {
		r := recover()
		if r == nil {
			return
		}
		switch e := r.(type) {
		case pathEnd:
			out = outcome{kind: "pruned", msg: e.reason}
		case engineAbort:
			if e.kind == "budget" {
				out = it.violation("budget", "step-budget", e.msg, nil)
				return
			}
			out = outcome{kind: "abort", msg: e.kind + ": " + e.msg + " @" + it.pos()}
		case *goPanic:
			kind := "panic"
			if e.goroutine {
				kind = "goroutine-panic"
			}
			out = it.violation(kind, "uncaught-panic", it.panicMessage(e.val)+" @"+e.where, nil)
		case *violationSignal:
			out = outcome{kind: "violation", viol: e.v}
		default:
			panic(r)
		}
	}()
	it.callFunction(fn, nil, nil, nil)
	if it.goLeak {
		for _, c := range it.chans {
			if len(c.q) > c.cap {
				return it.violation("leak", "goroutine-left-blocked", fmt.Sprintf("a channel with buffer %d is left holding %d unreceived values: its sender blocks forever", c.cap, len(c.q)), nil)
			}
		}
	}
	return outcome{kind: "ok"}
}

type violationSignal struct{ v *Violation }

func (it *Interp) violation(kind, label, msg string, ev *Evaluator) outcome {
	if ev == nil {
		ev = it.pr.curEval()
	}
	vec, pretty := it.pr.inputVector(ev)
	return outcome{kind: "violation", viol: &Violation{Harness: it.pr.w.ex.harness, Kind: kind, Label: label, Message: msg, Inputs: vec, Pretty: pretty, Pos: it.pos()}}
}

func (it *Interp) fail(kind, label, msg string, ev *Evaluator) {
	o := it.violation(kind, label, msg, ev)
	panic(&violationSignal{o.viol})
}

func (eng *Engine) findHarness(name string) *ssa.Function {
	for _, p := range eng.pkgs {
		if f := p.Func(name); f != nil {
			return f
		}
	}
	panic("harness not found: " + name)
}

// ---- calls ----

func (it *Interp) get(fr *Frame, v ssa.Value) Value {
	switch v := v.(type) {
	case *ssa.Const:
		return it.constValue(v)
	case *ssa.Global:
		return Value{Ref: it.globalCell(v)}
	case *ssa.Function:
		return Value{Ref: v}
	case *ssa.Builtin:
		return Value{Ref: v}
	}
	i, ok := fr.info.idx[v]
	if !ok {
		panic(fmt.Sprintf("no register for %s (%T) in %s", v.Name(), v, fr.fn))
	}
	return fr.regs[i]
}

func (it *Interp) set(fr *Frame, v ssa.Value, x Value) {
	fr.regs[fr.info.idx[v]] = x
}

func (it *Interp) callFunction(fn *ssa.Function, args []Value, bind []Value, deferOf *Frame) (ret Value) {
	if in, ok := it.eng.intr[fn]; ok {
		return in(it, fn, args)
	}
	if fn.TypeArgs() != nil {
		if in := it.eng.genericIntrinsic(fn); in != nil {
			return in(it, fn, args)
		}
	}
	if fn.Blocks == nil {
		if in := lookupIntrinsicByName(it.eng, fn); in != nil {
			return in(it, fn, args)
		}
		it.unsupported("call of function without body: " + fn.String())
	}
	it.depth++
	if it.depth > 400 {
		panic(engineAbort{"budget", "call depth exceeds 400 in " + fn.String()})
	}
	it.entered[fn] = true
	fi := it.eng.info(fn)
	fr := &Frame{fn: fn, info: fi, regs: make([]Value, fi.nregs), deferOf: deferOf, caller: it.cur}
	copy(fr.regs, args)
	copy(fr.regs[len(fn.Params):], bind)
	saved := it.cur
	it.cur = fr
	defer func() {
		it.cur = saved
		it.depth--
		r := recover()
		if r == nil {
			return
		}
		gp, ok := r.(*goPanic)
		if !ok || gp.goroutine {
			panic(r)
		}
		it.cur = fr
		it.depth++
		fr.panic = gp
		it.runDefers(fr)
		it.cur = saved
		it.depth--
		if fr.panic != nil {
			panic(fr.panic)
		}
		// recovered
		if fn.Recover != nil {
			it.cur = fr
			ret = it.exec(fr, fn.Recover, nil)
			it.cur = saved
		} else {
			ret = zeroValue(fn.Signature.Results())
			if fn.Signature.Results().Len() == 1 {
				ret = zeroValue(fn.Signature.Results().At(0).Type())
			}
		}
	}()
	return it.exec(fr, fn.Blocks[0], nil)
}

func (it *Interp) runDefers(fr *Frame) {
	for len(fr.defers) > 0 {
		d := fr.defers[len(fr.defers)-1]
		fr.defers = fr.defers[:len(fr.defers)-1]
		it.callValue(d.fn, d.args, d.inv, fr)
	}
}

// callValue calls a function value (function, closure, builtin) or, when inv
// is non-nil, invokes the method on the interface value in fn.
func (it *Interp) callValue(fn Value, args []Value, inv *ssa.CallCommon, deferOf *Frame) Value {
	if inv != nil {
		return it.invoke(fn, inv.Method, args, deferOf)
	}
	switch f := fn.Ref.(type) {
	case *ssa.Function:
		return it.callFunction(f, args, nil, deferOf)
	case *Closure:
		return it.callFunction(f.fn, args, f.bind, deferOf)
	case *ssa.Builtin:
		return it.callBuiltin(f, args, nil, deferOf)
	case nil:
		it.goPanicRuntime("invalid memory address or nil pointer dereference")
	case *poisonT:
		it.unsupported("call of poisoned function value: " + f.why)
	}
	panic(fmt.Sprintf("callValue: %T", fn.Ref))
}

func (it *Interp) invoke(recv Value, m *types.Func, args []Value, deferOf *Frame) Value {
	ifc, ok := recv.Ref.(*Iface)
	if !ok {
		if p, isP := recv.Ref.(*poisonT); isP {
			it.unsupported("invoke on poisoned value: " + p.why)
		}
		it.goPanicRuntime("invalid memory address or nil pointer dereference")
	}
	if tok, ok := ifc.v.Ref.(*typeToken); ok {
		return it.reflectTypeMethod(tok, m.Name(), args)
	}
	fn := it.lookupMethod(ifc.t, m)
	if fn == nil {
		it.unsupported(fmt.Sprintf("method %s not found on %s", m.Name(), typeStr(ifc.t)))
	}
	all := make([]Value, 0, len(args)+1)
	all = append(all, ifc.v)
	all = append(all, args...)
	return it.callFunction(fn, all, nil, deferOf)
}

func (it *Interp) lookupMethod(t types.Type, m *types.Func) *ssa.Function {
	ms := it.eng.prog.MethodSets.MethodSet(t)
	sel := ms.Lookup(m.Pkg(), m.Name())
	if sel == nil {
		return nil
	}
	return it.eng.prog.MethodValue(sel)
}

// ---- panics of the interpreted program ----

func (it *Interp) goPanicValue(v Value) {
	panic(&goPanic{val: v, where: it.pos()})
}

// goPanicRuntime raises a Go run-time panic (runtime.Error) with gc's message.
func (it *Interp) goPanicRuntime(msg string) {
	if it.initMode {
		it.unsupported("runtime panic during package initialisation: " + msg)
	}
	t := it.eng.modelType("RuntimeError")
	a := &Agg{v: []Value{mkStr(msg)}}
	panic(&goPanic{val: Value{Ref: &Iface{t: t, v: Value{Ref: a}}}, where: it.pos()})
}

func (eng *Engine) modelType(name string) types.Type {
	if eng.modelsPkg == nil {
		panic("models package not loaded")
	}
	return eng.modelsPkg.Type(name).Type()
}

func (it *Interp) panicMessage(v Value) string {
	ifc, ok := v.Ref.(*Iface)
	if !ok {
		return "panic(nil)"
	}
	switch x := ifc.v.Ref.(type) {
	case *Str:
		if x.Concrete() {
			return fmt.Sprintf("%s(%q)", typeStr(ifc.t), x.s)
		}
	case *Agg:
		if len(x.v) == 1 {
			if s, ok := x.v[0].Ref.(*Str); ok && s.Concrete() {
				return fmt.Sprintf("%s{%q}", typeStr(ifc.t), s.s)
			}
		}
	case *Cell:
		if x.agg && len(x.sub) > 0 {
			var parts []string
			for _, c := range x.sub {
				if s, ok := c.v.Ref.(*Str); ok && s.Concrete() {
					parts = append(parts, fmt.Sprintf("%q", s.s))
				}
			}
			return fmt.Sprintf("%s{%s}", typeStr(ifc.t), strings.Join(parts, ","))
		}
	}
	return typeStr(ifc.t)
}
