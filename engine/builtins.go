package main

import (
	"fmt"
	"go/token"
	"go/types"
	"strings"

	"golang.org/x/tools/go/ssa"
)

type intrinsic func(it *Interp, fn *ssa.Function, args []Value) Value

func (it *Interp) callBuiltin(b *ssa.Builtin, args []Value, cc *ssa.CallCommon, deferOf *Frame) Value {
	for _, a := range args {
		it.checkPoison(a)
	}
	switch b.Name() {
	case "len":
		switch x := args[0].Ref.(type) {
		case *Str:
			return Value{Bits: uint64(x.Len())}
		case Slice:
			return Value{Bits: uint64(x.n)}
		case *MapObj:
			return Value{Bits: uint64(len(x.keys))}
		case *ChanObj:
			return Value{Bits: uint64(len(x.q))}
		case *Agg:
			return Value{Bits: uint64(len(x.v))}
		case *Cell:
			return Value{Bits: uint64(len(x.sub))}
		case nil:
			return Value{}
		}
	case "cap":
		switch x := args[0].Ref.(type) {
		case Slice:
			return Value{Bits: uint64(len(x.c))}
		case *ChanObj:
			return Value{Bits: uint64(x.cap)}
		case *Agg:
			return Value{Bits: uint64(len(x.v))}
		case *Cell:
			return Value{Bits: uint64(len(x.sub))}
		case nil:
			return Value{}
		}
	case "append":
		return it.appendBuiltin(args, cc)
	case "copy":
		dst, _ := args[0].Ref.(Slice)
		var n int
		if s, ok := args[1].Ref.(*Str); ok {
			n = min(dst.n, s.Len())
			for i := 0; i < n; i++ {
				it.store(dst.c[i], s.At(i))
			}
		} else {
			src, _ := args[1].Ref.(Slice)
			n = min(dst.n, src.n)
			// handle overlap: read first
			tmp := make([]Value, n)
			for i := 0; i < n; i++ {
				tmp[i] = it.loadCell(src.c[i])
			}
			for i := 0; i < n; i++ {
				it.store(dst.c[i], tmp[i])
			}
		}
		return Value{Bits: uint64(n)}
	case "close":
		c, _ := args[0].Ref.(*ChanObj)
		if c == nil {
			it.goPanicValue(it.errorString("close of nil channel"))
		}
		if c.closed {
			it.goPanicValue(it.errorString("close of closed channel"))
		}
		c.closed = true
		return Value{}
	case "delete":
		m, _ := args[0].Ref.(*MapObj)
		if m == nil {
			return Value{}
		}
		if m.epoch != it.epoch {
			it.unsupported("delete from a frozen (package-level) map")
		}
		if i := it.mapFind(m, args[1]); i >= 0 {
			m.keys = append(m.keys[:i:i], m.keys[i+1:]...)
			m.vals = append(m.vals[:i:i], m.vals[i+1:]...)
		}
		return Value{}
	case "recover":
		fr := it.cur
		if fr != nil && fr.deferOf != nil && fr.deferOf.panic != nil {
			gp := fr.deferOf.panic
			fr.deferOf.panic = nil
			return gp.val
		}
		return Value{}
	case "print", "println":
		return Value{}
	case "min", "max":
		t := cc.Args[0].Type()
		res := args[0]
		for _, a := range args[1:] {
			var lt Value
			if b.Name() == "min" {
				lt = it.binopTok("<", t, a, res)
			} else {
				lt = it.binopTok(">", t, a, res)
			}
			if lt.Ref == nil {
				if lt.Bits != 0 {
					res = a
				}
			} else if isScalar(t) {
				s, _ := scalarSort(t)
				res = fromTerm(it.tt.Ite(lt.Ref.(*Term), it.term(a, s), it.term(res, s)))
			} else if it.truth(lt) {
				res = a
			}
		}
		return res
	case "clear":
		switch x := args[0].Ref.(type) {
		case *MapObj:
			x.keys, x.vals = nil, nil
		case Slice:
			et := cc.Args[0].Type().Underlying().(*types.Slice).Elem()
			for i := 0; i < x.n; i++ {
				it.store(x.c[i], zeroValue(et))
			}
		}
		return Value{}
	case "ssa:wrapnilchk":
		if args[0].Ref == nil {
			it.goPanicRuntime("value method called using nil pointer")
		}
		return args[0]
	}
	it.unsupported("builtin " + b.Name() + fmt.Sprintf(" on %T", args[0].Ref))
	return Value{}
}

func (it *Interp) appendBuiltin(args []Value, cc *ssa.CallCommon) Value {
	dst, _ := args[0].Ref.(Slice)
	var add []Value
	if s, ok := args[1].Ref.(*Str); ok {
		add = s.Bytes()
	} else {
		src, _ := args[1].Ref.(Slice)
		add = make([]Value, src.n)
		for i := 0; i < src.n; i++ {
			add[i] = it.loadCell(src.c[i])
		}
	}
	if len(add) == 0 {
		return args[0]
	}
	var et types.Type
	if cc != nil {
		et = cc.Args[0].Type().Underlying().(*types.Slice).Elem()
	} else {
		et = types.Typ[types.Uint8]
	}
	need := dst.n + len(add)
	if need <= len(dst.c) {
		for i, v := range add {
			it.store(dst.c[dst.n+i], v)
		}
		return Value{Ref: Slice{c: dst.c, n: need}}
	}
	newcap := len(dst.c) * 2
	if newcap < need {
		newcap = need
	}
	if newcap < 4 {
		newcap = 4
	}
	ns := it.newSlice(et, need, newcap)
	for i := 0; i < dst.n; i++ {
		ns.c[i].storeRaw(it.loadCell(dst.c[i]))
	}
	for i, v := range add {
		ns.c[dst.n+i].storeRaw(v)
	}
	return Value{Ref: ns}
}

func (it *Interp) binopTok(op string, t types.Type, x, y Value) Value {
	if op == "<" {
		return it.binop(token.LSS, t, x, y, t)
	}
	return it.binop(token.GTR, t, x, y, t)
}

// ---- harness vocabulary ----

func (it *Interp) symScalar(kind string, s Sort) Value {
	t := it.tt.Sym(s, kind)
	v := Value{Ref: t}
	it.pr.inputs = append(it.pr.inputs, inputRec{kind: kind, vals: []Value{v}, sort: []Sort{s}})
	return v
}

func (it *Interp) symBytes(kind string, n int) []Value {
	bs := make([]Value, n)
	for i := range bs {
		bs[i] = Value{Ref: it.tt.Sym(8, "b")}
	}
	it.pr.inputs = append(it.pr.inputs, inputRec{kind: kind, vals: bs, n: n})
	return bs
}

func (it *Interp) harnessCall(name string, fn *ssa.Function, args []Value) (Value, bool) {
	switch name {
	case "vsym_bool":
		return it.symScalar("bool", SBool), true
	case "vsym_u8", "vsym_byte":
		return it.symScalar("u8", 8), true
	case "vsym_u16":
		return it.symScalar("u16", 16), true
	case "vsym_u32":
		return it.symScalar("u32", 32), true
	case "vsym_u64", "vsym_uint":
		return it.symScalar("u64", 64), true
	case "vsym_i8":
		return it.symScalar("i8", 8), true
	case "vsym_i16":
		return it.symScalar("i16", 16), true
	case "vsym_i32":
		return it.symScalar("i32", 32), true
	case "vsym_i64", "vsym_int":
		return it.symScalar("i64", 64), true
	case "vsym_f64":
		return it.symScalar("f64", SF64), true
	case "vsym_f32":
		return it.symScalar("f32", SF32), true
	case "vsym_string", "vsym_bytes":
		max := int(it.concInt(args[0], types.Typ[types.Int]))
		n := it.pr.Choose(max + 1)
		if name == "vsym_string" {
			return mkStrBytes(it.symBytes("string", n)), true
		}
		bs := it.symBytes("bytes", n)
		sl := it.newSlice(types.Typ[types.Uint8], n, n)
		for i, b := range bs {
			sl.c[i].v = b
		}
		return Value{Ref: sl}, true
	case "vsym_nstring":
		n := int(it.concInt(args[0], types.Typ[types.Int]))
		return mkStrBytes(it.symBytes("string", n)), true
	case "vsym_choice":
		n := int(it.concInt(args[0], types.Typ[types.Int]))
		c := it.pr.Choose(n)
		it.pr.inputs = append(it.pr.inputs, inputRec{kind: "choice", n: c})
		return Value{Bits: uint64(c)}, true
	case "vassume":
		if args[0].Ref == nil {
			if args[0].Bits == 0 {
				panic(pathEnd{"assume false"})
			}
			return Value{}, true
		}
		it.pr.Assume(args[0].Ref.(*Term))
		return Value{}, true
	case "vassert":
		label := ""
		if len(args) > 1 {
			if s, ok := args[1].Ref.(*Str); ok && s.Concrete() {
				label = s.s
			}
		}
		c := args[0]
		var cond *Term
		if c.Ref == nil {
			cond = it.tt.Bool(c.Bits != 0)
		} else {
			cond = c.Ref.(*Term)
		}
		ok, ev := it.pr.Prove(cond)
		if !ok {
			it.fail("assert", label, "assertion can fail", ev)
		}
		return Value{}, true
	case "vand":
		return it.and(args[0], args[1]), true
	case "vor":
		return it.or(args[0], args[1]), true
	case "vite":
		c := args[0]
		if c.Ref == nil {
			if c.Bits != 0 {
				return args[1], true
			}
			return args[2], true
		}
		return fromTerm(it.tt.Ite(c.Ref.(*Term), it.term(args[1], 8), it.term(args[2], 8))), true
	case "vreach":
		if s, ok := args[0].Ref.(*Str); ok && s.Concrete() {
			it.pr.tags = append(it.pr.tags, s.s)
		}
		return Value{}, true
	case "vopt_maporder":
		it.mapOrder = args[0].Bits != 0
		return Value{}, true
	case "vopt_goleak":
		it.goLeak = true
		return Value{}, true
	case "vopt_budget":
		it.stepBudget = int(args[0].Bits)
		return Value{}, true
	case "vsymbolic":
		// reports whether the engine (not the native replay) is running
		return Value{Bits: 1}, true
	case "vconc":
		// concretise an int (fork over its feasible values)
		return Value{Bits: uint64(it.concInt(args[0], types.Typ[types.Int]))}, true
	case "vfail":
		label := ""
		if s, ok := args[0].Ref.(*Str); ok && s.Concrete() {
			label = s.s
		}
		it.fail("assert", label, "vfail reached", nil)
	}
	if strings.HasPrefix(name, "vsym_") || strings.HasPrefix(name, "vopt_") {
		it.unsupported("unknown harness primitive " + name)
	}
	return Value{}, false
}
