package main

import (
	"fmt"
	"go/types"
	"strings"

	"golang.org/x/tools/go/ssa"
)

// reflect-lite: reflect.Type values are tokens for go/types types. Only the
// queries that the kernels need are answered; anything else leaves the kernel.

func (eng *Engine) typeTokenFor(t types.Type) *typeToken {
	key := types.TypeString(t, nil)
	eng.tokMu.Lock()
	defer eng.tokMu.Unlock()
	if eng.typeTokens == nil {
		eng.typeTokens = map[string]*typeToken{}
	}
	if tok, ok := eng.typeTokens[key]; ok {
		return tok
	}
	tok := &typeToken{t: t}
	eng.typeTokens[key] = tok
	return tok
}

func (it *Interp) reflectTypeValue(t types.Type) Value {
	rp := it.eng.pkgs["reflect"]
	if rp == nil {
		it.unsupported("package reflect is not loaded")
	}
	rt := types.NewPointer(rp.Type("rtype").Type())
	return Value{Ref: &Iface{t: rt, v: Value{Ref: it.eng.typeTokenFor(t)}}}
}

func reflectKindOf(t types.Type) uint64 {
	switch u := t.Underlying().(type) {
	case *types.Basic:
		switch u.Kind() {
		case types.Bool, types.UntypedBool:
			return 1
		case types.Int, types.UntypedInt:
			return 2
		case types.Int8:
			return 3
		case types.Int16:
			return 4
		case types.Int32, types.UntypedRune:
			return 5
		case types.Int64:
			return 6
		case types.Uint:
			return 7
		case types.Uint8:
			return 8
		case types.Uint16:
			return 9
		case types.Uint32:
			return 10
		case types.Uint64:
			return 11
		case types.Uintptr:
			return 12
		case types.Float32:
			return 13
		case types.Float64, types.UntypedFloat:
			return 14
		case types.Complex64:
			return 15
		case types.Complex128, types.UntypedComplex:
			return 16
		case types.String, types.UntypedString:
			return 24
		case types.UnsafePointer:
			return 26
		}
	case *types.Array:
		return 17
	case *types.Chan:
		return 18
	case *types.Signature:
		return 19
	case *types.Interface:
		return 20
	case *types.Map:
		return 21
	case *types.Pointer:
		return 22
	case *types.Slice:
		return 23
	case *types.Struct:
		return 25
	}
	return 0
}

func (it *Interp) tokenArg(v Value) *typeToken {
	ifc, _ := v.Ref.(*Iface)
	if ifc == nil {
		it.goPanicRuntime("invalid memory address or nil pointer dereference")
	}
	tok, ok := ifc.v.Ref.(*typeToken)
	if !ok {
		it.unsupported("reflect.Type argument that is not a type token")
	}
	return tok
}

// reflectTypeMethod answers a method call on a reflect.Type token.
func (it *Interp) reflectTypeMethod(tok *typeToken, name string, args []Value) Value {
	t := tok.t
	switch name {
	case "Kind":
		return Value{Bits: reflectKindOf(t)}
	case "String":
		return mkStr(types.TypeString(t, func(p *types.Package) string { return p.Name() }))
	case "Name":
		if n, ok := t.(*types.Named); ok {
			return mkStr(n.Obj().Name())
		}
		if b, ok := t.(*types.Basic); ok {
			return mkStr(b.Name())
		}
		return mkStr("")
	case "PkgPath":
		if n, ok := t.(*types.Named); ok && n.Obj().Pkg() != nil {
			return mkStr(n.Obj().Pkg().Path())
		}
		return mkStr("")
	case "Comparable":
		return Value{Bits: b2u(types.Comparable(t))}
	case "Implements":
		u := it.tokenArg(args[0])
		iface, ok := u.t.Underlying().(*types.Interface)
		if !ok {
			it.goPanicValue(mkStrIface(it, "reflect: non-interface type passed to Type.Implements"))
		}
		return Value{Bits: b2u(types.Implements(t, iface))}
	case "AssignableTo":
		u := it.tokenArg(args[0])
		return Value{Bits: b2u(types.AssignableTo(t, u.t))}
	case "ConvertibleTo":
		u := it.tokenArg(args[0])
		return Value{Bits: b2u(types.ConvertibleTo(t, u.t))}
	case "Elem":
		switch u := t.Underlying().(type) {
		case *types.Pointer:
			return it.reflectTypeValue(u.Elem())
		case *types.Slice:
			return it.reflectTypeValue(u.Elem())
		case *types.Array:
			return it.reflectTypeValue(u.Elem())
		case *types.Map:
			return it.reflectTypeValue(u.Elem())
		case *types.Chan:
			return it.reflectTypeValue(u.Elem())
		}
		it.goPanicValue(mkStrIface(it, "reflect: Elem of invalid type "+typeStr(t)))
	case "ChanDir":
		if u, ok := t.Underlying().(*types.Chan); ok {
			switch u.Dir() {
			case types.RecvOnly:
				return Value{Bits: 1}
			case types.SendOnly:
				return Value{Bits: 2}
			}
			return Value{Bits: 3}
		}
		it.goPanicValue(mkStrIface(it, "reflect: ChanDir of non-chan type "+typeStr(t)))
	case "Key":
		if u, ok := t.Underlying().(*types.Map); ok {
			return it.reflectTypeValue(u.Key())
		}
		it.goPanicValue(mkStrIface(it, "reflect: Key of non-map type "+typeStr(t)))
	case "Len":
		if u, ok := t.Underlying().(*types.Array); ok {
			return Value{Bits: uint64(u.Len())}
		}
		it.goPanicValue(mkStrIface(it, "reflect: Len of non-array type "+typeStr(t)))
	case "NumMethod":
		ms := it.eng.prog.MethodSets.MethodSet(t)
		n := 0
		for i := 0; i < ms.Len(); i++ {
			if ms.At(i).Obj().Exported() {
				n++
			}
		}
		if iface, ok := t.Underlying().(*types.Interface); ok {
			n = iface.NumMethods()
		}
		return Value{Bits: uint64(n)}
	case "NumIn", "NumOut", "IsVariadic", "In", "Out":
		sig, ok := t.Underlying().(*types.Signature)
		if !ok {
			it.goPanicValue(mkStrIface(it, "reflect: "+name+" of non-func type "+typeStr(t)))
		}
		switch name {
		case "NumIn":
			return Value{Bits: uint64(sig.Params().Len())}
		case "NumOut":
			return Value{Bits: uint64(sig.Results().Len())}
		case "IsVariadic":
			return Value{Bits: b2u(sig.Variadic())}
		}
		i := int(it.concInt(args[0], types.Typ[types.Int]))
		tup := sig.Params()
		if name == "Out" {
			tup = sig.Results()
		}
		if i < 0 || i >= tup.Len() {
			it.goPanicValue(mkStrIface(it, "reflect: Func index out of bounds"))
		}
		return it.reflectTypeValue(tup.At(i).Type())
	case "NumField":
		if st, ok := t.Underlying().(*types.Struct); ok {
			return Value{Bits: uint64(st.NumFields())}
		}
		it.goPanicValue(mkStrIface(it, "reflect: NumField of non-struct type "+typeStr(t)))
	case "Field":
		st, ok := t.Underlying().(*types.Struct)
		if !ok {
			it.goPanicValue(mkStrIface(it, "reflect: Field of non-struct type "+typeStr(t)))
		}
		i := int(it.concInt(args[0], types.Typ[types.Int]))
		if i < 0 || i >= st.NumFields() {
			it.goPanicValue(mkStrIface(it, "reflect: Field index out of bounds"))
		}
		return it.reflStructField(st, i, []int{i})
	case "FieldByIndex":
		sl, _ := args[0].Ref.(Slice)
		cur := t
		var res Value
		var path []int
		for k := 0; k < sl.n; k++ {
			if k > 0 {
				if p, isP := cur.Underlying().(*types.Pointer); isP {
					cur = p.Elem()
				}
			}
			st, ok := cur.Underlying().(*types.Struct)
			if !ok {
				it.goPanicValue(mkStrIface(it, "reflect: FieldByIndex of non-struct type "+typeStr(cur)))
			}
			i := int(it.concInt(it.loadCell(sl.c[k]), types.Typ[types.Int]))
			if i < 0 || i >= st.NumFields() {
				it.goPanicValue(mkStrIface(it, "reflect: Field index out of bounds"))
			}
			path = append(path, i)
			res = it.reflStructField(st, i, append([]int(nil), path...))
			cur = st.Field(i).Type()
		}
		return res
	case "FieldByName":
		st, ok := t.Underlying().(*types.Struct)
		if !ok {
			it.goPanicValue(mkStrIface(it, "reflect: FieldByName of non-struct type "+typeStr(t)))
		}
		ns, _ := args[0].Ref.(*Str)
		if ns == nil || !ns.Concrete() {
			it.unsupported("reflect.Type.FieldByName with a symbolic name")
		}
		// breadth-first over embedded structs, as reflect does; an ambiguous
		// name at the shallowest depth is not found
		type cand struct {
			st   *types.Struct
			path []int
		}
		level := []cand{{st, nil}}
		for depth := 0; depth < 4 && len(level) > 0; depth++ {
			var found []cand
			var foundIdx []int
			var next []cand
			for _, c := range level {
				for i := 0; i < c.st.NumFields(); i++ {
					f := c.st.Field(i)
					if f.Name() == ns.s {
						found = append(found, c)
						foundIdx = append(foundIdx, i)
					}
					if f.Embedded() {
						ft := f.Type()
						if p, isP := ft.Underlying().(*types.Pointer); isP {
							ft = p.Elem()
						}
						if est, isS := ft.Underlying().(*types.Struct); isS {
							next = append(next, cand{est, append(append([]int(nil), c.path...), i)})
						}
					}
				}
			}
			if len(found) == 1 {
				c := found[0]
				return Value{Ref: Tuple{it.reflStructField(c.st, foundIdx[0], append(append([]int(nil), c.path...), foundIdx[0])), Value{Bits: 1}}}
			}
			if len(found) > 1 {
				break
			}
			level = next
		}
		zero := Value{Ref: &Agg{v: []Value{mkStr(""), mkStr(""), {}, mkStr(""), {}, {}, {}}}}
		return Value{Ref: Tuple{zero, Value{}}}
	case "MethodByName":
		ns, _ := args[0].Ref.(*Str)
		if ns == nil || !ns.Concrete() {
			it.unsupported("reflect.Type.MethodByName with a symbolic name")
		}
		ms := types.NewMethodSet(t)
		idx := 0
		for i := 0; i < ms.Len(); i++ {
			m := ms.At(i).Obj()
			if !m.Exported() {
				continue
			}
			if m.Name() == ns.s {
				sig := m.Type().(*types.Signature)
				mt := types.Type(sig)
				if _, isI := t.Underlying().(*types.Interface); !isI {
					params := []*types.Var{types.NewParam(0, nil, "", t)}
					for j := 0; j < sig.Params().Len(); j++ {
						params = append(params, sig.Params().At(j))
					}
					mt = types.NewSignatureType(nil, nil, nil, types.NewTuple(params...), sig.Results(), sig.Variadic())
				} else {
					mt = types.NewSignatureType(nil, nil, nil, sig.Params(), sig.Results(), sig.Variadic())
				}
				// reflect.Method{Name, PkgPath, Type, Func, Index}
				meth := &Agg{v: []Value{mkStr(m.Name()), mkStr(""), it.reflectTypeValue(mt), {Ref: &poisonT{"reflect.Method.Func"}}, {Bits: uint64(idx)}}}
				return Value{Ref: Tuple{Value{Ref: meth}, Value{Bits: 1}}}
			}
			idx++
		}
		zero := &Agg{v: []Value{mkStr(""), mkStr(""), {}, {}, {}}}
		return Value{Ref: Tuple{Value{Ref: zero}, Value{}}}
	case "Bits":
		if isScalar(t) {
			s, _ := scalarSort(t)
			switch s {
			case SF32:
				return Value{Bits: 32}
			case SF64:
				return Value{Bits: 64}
			case SBool:
			default:
				return Value{Bits: uint64(s)}
			}
		}
		it.goPanicValue(mkStrIface(it, "reflect: Bits of non-arithmetic Type "+typeStr(t)))
	}
	it.unsupported("reflect.Type method " + name + " is not modelled")
	return Value{}
}

// reflStructField is the reflect.StructField of field i of st.
func (it *Interp) reflStructField(st *types.Struct, i int, index []int) Value {
	f := st.Field(i)
	pkgPath := ""
	if !f.Exported() && f.Pkg() != nil {
		pkgPath = f.Pkg().Path()
	}
	idx := it.newSlice(types.Typ[types.Int], len(index), len(index))
	for k, x := range index {
		idx.c[k].storeRaw(Value{Bits: uint64(x)})
	}
	// reflect.StructField{Name, PkgPath, Type, Tag, Offset, Index, Anonymous}
	return Value{Ref: &Agg{v: []Value{mkStr(f.Name()), mkStr(pkgPath), it.reflectTypeValue(f.Type()), mkStr(reflectTagValue(st.Tag(i))), {}, {Ref: idx}, {Bits: b2u(f.Embedded())}}}}
}

func mkStrIface(it *Interp, s string) Value {
	return Value{Ref: &Iface{t: types.Typ[types.String], v: mkStr(s)}}
}

// reflect.TypeOf and reflect.TypeFor[T]
func reflectIntrinsic(eng *Engine, fn *ssa.Function, name string) intrinsic {
	switch {
	case name == "reflect.TypeOf":
		return func(it *Interp, f *ssa.Function, args []Value) Value {
			ifc, _ := args[0].Ref.(*Iface)
			if ifc == nil {
				return Value{}
			}
			if _, isTok := ifc.v.Ref.(*typeToken); isTok {
				it.unsupported("reflect.TypeOf of a reflect.Type")
			}
			return it.reflectTypeValue(ifc.t)
		}
	case name == "reflect.FuncOf":
		return func(it *Interp, f *ssa.Function, args []Value) Value {
			tuple := func(v Value) *types.Tuple {
				sl, _ := v.Ref.(Slice)
				vars := make([]*types.Var, sl.n)
				for i := 0; i < sl.n; i++ {
					vars[i] = types.NewParam(0, nil, "", it.tokenArg(it.loadCell(sl.c[i])).t)
				}
				return types.NewTuple(vars...)
			}
			variadic := args[2].Ref == nil && args[2].Bits != 0
			return it.reflectTypeValue(types.NewSignatureType(nil, nil, nil, tuple(args[0]), tuple(args[1]), variadic))
		}
	case name == "reflect.StructOf":
		return func(it *Interp, f *ssa.Function, args []Value) Value {
			sl, _ := args[0].Ref.(Slice)
			vars := make([]*types.Var, sl.n)
			tags := make([]string, sl.n)
			for i := 0; i < sl.n; i++ {
				a, _ := it.loadCell(sl.c[i]).Ref.(*Agg)
				if a == nil {
					it.unsupported("reflect.StructOf of an unmodelled field")
				}
				nm, _ := a.v[0].Ref.(*Str)
				pp, _ := a.v[1].Ref.(*Str)
				tg, _ := a.v[3].Ref.(*Str)
				if nm == nil || !nm.Concrete() || (pp != nil && !pp.Concrete()) || (tg != nil && !tg.Concrete()) {
					it.unsupported("reflect.StructOf with symbolic field names")
				}
				if nm.s == "" {
					it.goPanicValue(mkStrIface(it, "reflect.StructOf: field "+fmt.Sprint(i)+" has no name"))
				}
				if a.v[2].Ref == nil {
					it.goPanicValue(mkStrIface(it, "reflect.StructOf: field "+fmt.Sprint(i)+" has no type"))
				}
				var pkg *types.Package
				if pp != nil && pp.s != "" {
					pkg = it.eng.typesPackage(pp.s)
				}
				vars[i] = types.NewField(0, pkg, nm.s, it.tokenArg(a.v[2]).t, a.v[6].Bits != 0)
				if tg != nil {
					tags[i] = tg.s
				}
			}
			return it.reflectTypeValue(types.NewStruct(vars, tags))
		}
	case name == "reflect.SliceOf":
		return func(it *Interp, f *ssa.Function, args []Value) Value {
			return it.reflectTypeValue(types.NewSlice(it.tokenArg(args[0]).t))
		}
	case name == "reflect.PointerTo", name == "reflect.PtrTo":
		return func(it *Interp, f *ssa.Function, args []Value) Value {
			return it.reflectTypeValue(types.NewPointer(it.tokenArg(args[0]).t))
		}
	case name == "reflect.MapOf":
		return func(it *Interp, f *ssa.Function, args []Value) Value {
			return it.reflectTypeValue(types.NewMap(it.tokenArg(args[0]).t, it.tokenArg(args[1]).t))
		}
	case name == "reflect.ArrayOf":
		return func(it *Interp, f *ssa.Function, args []Value) Value {
			n := it.concInt(args[0], types.Typ[types.Int])
			return it.reflectTypeValue(types.NewArray(it.tokenArg(args[1]).t, n))
		}
	case name == "reflect.ChanOf":
		return func(it *Interp, f *ssa.Function, args []Value) Value {
			dir := types.SendRecv
			switch it.concInt(args[0], types.Typ[types.Int]) {
			case 1:
				dir = types.RecvOnly
			case 2:
				dir = types.SendOnly
			}
			return it.reflectTypeValue(types.NewChan(dir, it.tokenArg(args[1]).t))
		}
	case strings.HasPrefix(name, "reflect.TypeFor["):
		targs := fn.TypeArgs()
		if len(targs) != 1 {
			return nil
		}
		t := targs[0]
		return func(it *Interp, f *ssa.Function, args []Value) Value {
			return it.reflectTypeValue(t)
		}
	}
	return nil
}

var _ = fmt.Sprint

// genericIntrinsic resolves intrinsics for instantiations of generic
// functions (they are created on demand and are not package members).
func (eng *Engine) genericIntrinsic(fn *ssa.Function) intrinsic {
	if v, ok := eng.genIntr.Load(fn); ok {
		in, _ := v.(intrinsic)
		return in
	}
	in := reflectIntrinsic(eng, fn, fn.String())
	if in == nil {
		eng.genIntr.Store(fn, false)
		return nil
	}
	eng.genIntr.Store(fn, in)
	return in
}

// ---- reflect.Value (lite) ----
//
// A reflect.Value is an opaque register value: nil Ref is the zero Value
// (invalid), otherwise *ReflVal pairs the go/types type with the engine value.

type ReflVal struct {
	t    types.Type
	v    Value
	addr *Cell // non-nil when the value is addressable (obtained through a pointer)
	ro   bool  // obtained through an unexported struct field (reflect's flagRO)
}

// cur is the current value (re-read from memory when addressable).
func (rv *ReflVal) cur() Value {
	if rv.addr != nil {
		return rv.addr.load()
	}
	return rv.v
}

func isReflectValueType(t types.Type) bool {
	n, ok := t.(*types.Named)
	return ok && n.Obj().Pkg() != nil && n.Obj().Pkg().Path() == "reflect" && n.Obj().Name() == "Value"
}

func (it *Interp) reflVal(v Value, method string) *ReflVal {
	rv, ok := v.Ref.(*ReflVal)
	if !ok {
		if v.Ref == nil {
			it.goPanicValue(mkStrIface(it, "reflect: call of reflect.Value."+method+" on zero Value"))
		}
		if _, isAgg := v.Ref.(*Agg); isAgg {
			it.goPanicValue(mkStrIface(it, "reflect: call of reflect.Value."+method+" on zero Value"))
		}
		it.checkPoison(v)
		it.unsupported("reflect.Value of an unmodelled shape")
	}
	return rv
}

func reflValid(v Value) bool {
	_, ok := v.Ref.(*ReflVal)
	return ok
}

func (it *Interp) reflKindPanic(method string, rv *ReflVal) {
	it.goPanicValue(mkStrIface(it, "reflect: call of reflect.Value."+method+" on "+typeStr(rv.t)+" Value"))
}

func reflectValueIntrinsics() map[string]intrinsic {
	m := map[string]intrinsic{
		"reflect.ValueOf": func(it *Interp, fn *ssa.Function, args []Value) Value {
			ifc, _ := args[0].Ref.(*Iface)
			if ifc == nil {
				return Value{}
			}
			if _, isTok := ifc.v.Ref.(*typeToken); isTok {
				it.unsupported("reflect.ValueOf of a reflect.Type")
			}
			return Value{Ref: &ReflVal{t: ifc.t, v: ifc.v}}
		},
		"reflect.New": func(it *Interp, fn *ssa.Function, args []Value) Value {
			t := it.tokenArg(args[0]).t
			return Value{Ref: &ReflVal{t: types.NewPointer(t), v: Value{Ref: newCell(t, it.epoch)}}}
		},
		"reflect.Zero": func(it *Interp, fn *ssa.Function, args []Value) Value {
			t := it.tokenArg(args[0]).t
			return Value{Ref: &ReflVal{t: t, v: zeroValue(t)}}
		},
		"(reflect.Value).IsValid": func(it *Interp, fn *ssa.Function, args []Value) Value {
			return Value{Bits: b2u(reflValid(args[0]))}
		},
		"(reflect.Value).Kind": func(it *Interp, fn *ssa.Function, args []Value) Value {
			if !reflValid(args[0]) {
				return Value{}
			}
			return Value{Bits: reflectKindOf(args[0].Ref.(*ReflVal).t)}
		},
		"(reflect.Value).Type": func(it *Interp, fn *ssa.Function, args []Value) Value {
			return it.reflectTypeValue(it.reflVal(args[0], "Type").t)
		},
		"(reflect.Value).CanInterface": func(it *Interp, fn *ssa.Function, args []Value) Value {
			rv := it.reflVal(args[0], "CanInterface")
			return Value{Bits: b2u(!rv.ro)}
		},
		"(reflect.Value).Interface": func(it *Interp, fn *ssa.Function, args []Value) Value {
			rv := it.reflVal(args[0], "Interface")
			if rv.ro {
				it.goPanicValue(mkStrIface(it, "reflect.Value.Interface: cannot return value obtained from unexported field or method"))
			}
			if _, isI := rv.t.Underlying().(*types.Interface); isI {
				return rv.cur()
			}
			return Value{Ref: &Iface{t: rv.t, v: rv.cur()}}
		},
		"(reflect.Value).Bool": func(it *Interp, fn *ssa.Function, args []Value) Value {
			rv := it.reflVal(args[0], "Bool")
			if reflectKindOf(rv.t) != 1 {
				it.reflKindPanic("Bool", rv)
			}
			return rv.cur()
		},
		"(reflect.Value).Int": func(it *Interp, fn *ssa.Function, args []Value) Value {
			rv := it.reflVal(args[0], "Int")
			if k := reflectKindOf(rv.t); k < 2 || k > 6 {
				it.reflKindPanic("Int", rv)
			}
			return it.convert(rv.cur(), rv.t, types.Typ[types.Int64])
		},
		"(reflect.Value).Uint": func(it *Interp, fn *ssa.Function, args []Value) Value {
			rv := it.reflVal(args[0], "Uint")
			if k := reflectKindOf(rv.t); k < 7 || k > 12 {
				it.reflKindPanic("Uint", rv)
			}
			return it.convert(rv.cur(), rv.t, types.Typ[types.Uint64])
		},
		"(reflect.Value).Float": func(it *Interp, fn *ssa.Function, args []Value) Value {
			rv := it.reflVal(args[0], "Float")
			if k := reflectKindOf(rv.t); k != 13 && k != 14 {
				it.reflKindPanic("Float", rv)
			}
			return it.convert(rv.cur(), rv.t, types.Typ[types.Float64])
		},
		"(reflect.Value).String": func(it *Interp, fn *ssa.Function, args []Value) Value {
			if !reflValid(args[0]) {
				return mkStr("<invalid Value>")
			}
			rv := args[0].Ref.(*ReflVal)
			if reflectKindOf(rv.t) != 24 {
				return mkStr("<" + typeStr(rv.t) + " Value>")
			}
			return rv.cur()
		},
		"(reflect.Value).Len": func(it *Interp, fn *ssa.Function, args []Value) Value {
			rv := it.reflVal(args[0], "Len")
			switch x := rv.cur().Ref.(type) {
			case *Str:
				return Value{Bits: uint64(x.Len())}
			case Slice:
				return Value{Bits: uint64(x.n)}
			case *Agg:
				if _, ok := rv.t.Underlying().(*types.Array); ok {
					return Value{Bits: uint64(len(x.v))}
				}
			case *MapObj:
				return Value{Bits: uint64(len(x.keys))}
			case nil:
				switch rv.t.Underlying().(type) {
				case *types.Slice, *types.Map:
					return Value{}
				}
			}
			it.reflKindPanic("Len", rv)
			return Value{}
		},
		"(reflect.Value).IsNil": func(it *Interp, fn *ssa.Function, args []Value) Value {
			rv := it.reflVal(args[0], "IsNil")
			switch rv.t.Underlying().(type) {
			case *types.Pointer, *types.Map, *types.Chan, *types.Signature, *types.Interface:
				return Value{Bits: b2u(rv.cur().Ref == nil)}
			case *types.Slice:
				s, ok := rv.cur().Ref.(Slice)
				return Value{Bits: b2u(!ok || s.c == nil)}
			case *types.Basic:
				if reflectKindOf(rv.t) == 26 {
					return Value{Bits: b2u(rv.cur().Ref == nil)}
				}
			}
			it.reflKindPanic("IsNil", rv)
			return Value{}
		},
		"(reflect.Value).Index": func(it *Interp, fn *ssa.Function, args []Value) Value {
			rv := it.reflVal(args[0], "Index")
			n := 0
			switch x := rv.cur().Ref.(type) {
			case Slice:
				n = x.n
			case *Agg:
				n = len(x.v)
			case *Str:
				n = x.Len()
			}
			i, inRange := -1, false
			if n > 0 {
				i, inRange = it.reflBound(args[1], n-1)
			}
			if !inRange {
				i = -1
			}
			switch u := rv.t.Underlying().(type) {
			case *types.Slice:
				s, _ := rv.cur().Ref.(Slice)
				if i < 0 || i >= s.n {
					it.goPanicValue(mkStrIface(it, "reflect: slice index out of range"))
				}
				return Value{Ref: &ReflVal{t: u.Elem(), addr: s.c[i], ro: rv.ro}}
			case *types.Array:
				a := rv.cur().Ref.(*Agg)
				if i < 0 || i >= len(a.v) {
					it.goPanicValue(mkStrIface(it, "reflect: array index out of range"))
				}
				if rv.addr != nil && rv.addr.agg && len(rv.addr.sub) == len(a.v) {
					return Value{Ref: &ReflVal{t: u.Elem(), addr: rv.addr.sub[i], ro: rv.ro}}
				}
				return Value{Ref: &ReflVal{t: u.Elem(), v: a.v[i], ro: rv.ro}}
			case *types.Basic:
				if s, ok := rv.cur().Ref.(*Str); ok {
					if i < 0 || i >= s.Len() {
						it.goPanicValue(mkStrIface(it, "reflect: string index out of range"))
					}
					return Value{Ref: &ReflVal{t: types.Typ[types.Uint8], v: s.At(i)}}
				}
			}
			it.reflKindPanic("Index", rv)
			return Value{}
		},
		"(reflect.Value).Elem": func(it *Interp, fn *ssa.Function, args []Value) Value {
			rv := it.reflVal(args[0], "Elem")
			switch u := rv.t.Underlying().(type) {
			case *types.Pointer:
				if rv.cur().Ref == nil {
					return Value{}
				}
				c := it.cellOf(rv.cur())
				return Value{Ref: &ReflVal{t: u.Elem(), addr: c, ro: rv.ro}}
			case *types.Interface:
				ifc, _ := rv.cur().Ref.(*Iface)
				if ifc == nil {
					return Value{}
				}
				return Value{Ref: &ReflVal{t: ifc.t, v: ifc.v, ro: rv.ro}}
			}
			it.reflKindPanic("Elem", rv)
			return Value{}
		},
		"(reflect.Value).CanSet": func(it *Interp, fn *ssa.Function, args []Value) Value {
			rv := it.reflVal(args[0], "CanSet")
			return Value{Bits: b2u(rv.addr != nil && !rv.ro)}
		},
		"(reflect.Value).CanAddr": func(it *Interp, fn *ssa.Function, args []Value) Value {
			rv := it.reflVal(args[0], "CanAddr")
			return Value{Bits: b2u(rv.addr != nil)}
		},
		"(reflect.Value).Addr": func(it *Interp, fn *ssa.Function, args []Value) Value {
			rv := it.reflVal(args[0], "Addr")
			if rv.addr == nil {
				it.goPanicValue(mkStrIface(it, "reflect.Value.Addr of unaddressable value"))
			}
			return Value{Ref: &ReflVal{t: types.NewPointer(rv.t), v: Value{Ref: rv.addr}}}
		},
		"(reflect.Value).Set": func(it *Interp, fn *ssa.Function, args []Value) Value {
			rv := it.reflVal(args[0], "Set")
			if rv.ro {
				it.goPanicValue(mkStrIface(it, "reflect: reflect.Value.Set using value obtained using unexported field"))
			}
			x := it.reflVal(args[1], "Set")
			if rv.addr == nil {
				it.goPanicValue(mkStrIface(it, "reflect: reflect.Value.Set using unaddressable value"))
			}
			val := x.cur()
			if _, isI := rv.t.Underlying().(*types.Interface); isI {
				if _, srcI := x.t.Underlying().(*types.Interface); !srcI {
					val = Value{Ref: &Iface{t: x.t, v: val}}
				}
			}
			it.store(rv.addr, val)
			return Value{}
		},
		"(reflect.Value).SetInt": func(it *Interp, fn *ssa.Function, args []Value) Value {
			rv := it.reflVal(args[0], "SetInt")
			if rv.ro {
				it.goPanicValue(mkStrIface(it, "reflect: reflect.Value.SetInt using value obtained using unexported field"))
			}
			if rv.addr == nil {
				it.goPanicValue(mkStrIface(it, "reflect: reflect.Value.SetInt using unaddressable value"))
			}
			it.store(rv.addr, it.convert(args[1], types.Typ[types.Int64], rv.t))
			return Value{}
		},
		"(reflect.Value).SetUint": func(it *Interp, fn *ssa.Function, args []Value) Value {
			rv := it.reflVal(args[0], "SetUint")
			if rv.ro {
				it.goPanicValue(mkStrIface(it, "reflect: reflect.Value.SetUint using value obtained using unexported field"))
			}
			if rv.addr == nil {
				it.goPanicValue(mkStrIface(it, "reflect: reflect.Value.SetUint using unaddressable value"))
			}
			it.store(rv.addr, it.convert(args[1], types.Typ[types.Uint64], rv.t))
			return Value{}
		},
		"(reflect.Value).SetBool": func(it *Interp, fn *ssa.Function, args []Value) Value {
			rv := it.reflVal(args[0], "SetBool")
			if rv.ro {
				it.goPanicValue(mkStrIface(it, "reflect: reflect.Value.SetBool using value obtained using unexported field"))
			}
			if rv.addr == nil {
				it.goPanicValue(mkStrIface(it, "reflect: reflect.Value.SetBool using unaddressable value"))
			}
			it.store(rv.addr, args[1])
			return Value{}
		},
		"(reflect.Value).SetFloat": func(it *Interp, fn *ssa.Function, args []Value) Value {
			rv := it.reflVal(args[0], "SetFloat")
			if rv.ro {
				it.goPanicValue(mkStrIface(it, "reflect: reflect.Value.SetFloat using value obtained using unexported field"))
			}
			if rv.addr == nil {
				it.goPanicValue(mkStrIface(it, "reflect: reflect.Value.SetFloat using unaddressable value"))
			}
			it.store(rv.addr, it.convert(args[1], types.Typ[types.Float64], rv.t))
			return Value{}
		},
		"(reflect.Value).SetString": func(it *Interp, fn *ssa.Function, args []Value) Value {
			rv := it.reflVal(args[0], "SetString")
			if rv.ro {
				it.goPanicValue(mkStrIface(it, "reflect: reflect.Value.SetString using value obtained using unexported field"))
			}
			if rv.addr == nil {
				it.goPanicValue(mkStrIface(it, "reflect: reflect.Value.SetString using unaddressable value"))
			}
			it.store(rv.addr, args[1])
			return Value{}
		},
		"(reflect.Value).IsZero": func(it *Interp, fn *ssa.Function, args []Value) Value {
			rv := it.reflVal(args[0], "IsZero")
			return it.equal(rv.t, rv.cur(), zeroValue(rv.t))
		},
		"(reflect.Value).Pointer": func(it *Interp, fn *ssa.Function, args []Value) Value {
			it.unsupported("reflect.Value.Pointer")
			return Value{}
		},
		"(reflect.Value).NumField": func(it *Interp, fn *ssa.Function, args []Value) Value {
			rv := it.reflVal(args[0], "NumField")
			if st, ok := rv.t.Underlying().(*types.Struct); ok {
				return Value{Bits: uint64(st.NumFields())}
			}
			it.reflKindPanic("NumField", rv)
			return Value{}
		},
		"(reflect.Value).FieldByIndex": func(it *Interp, fn *ssa.Function, args []Value) Value {
			sl, _ := args[1].Ref.(Slice)
			cur := args[0]
			fieldFn := reflectValueIntrinsics()["(reflect.Value).Field"]
			elemFn := reflectValueIntrinsics()["(reflect.Value).Elem"]
			for k := 0; k < sl.n; k++ {
				rv := it.reflVal(cur, "FieldByIndex")
				if k > 0 {
					if _, isP := rv.t.Underlying().(*types.Pointer); isP {
						if rv.cur().Ref == nil {
							it.goPanicValue(mkStrIface(it, "reflect: indirection through nil pointer to embedded struct"))
						}
						cur = elemFn(it, fn, []Value{cur})
					}
				}
				cur = fieldFn(it, fn, []Value{cur, it.loadCell(sl.c[k])})
			}
			return cur
		},
		"(reflect.Value).Field": func(it *Interp, fn *ssa.Function, args []Value) Value {
			rv := it.reflVal(args[0], "Field")
			i := int(it.concInt(args[1], types.Typ[types.Int]))
			if st, ok := rv.t.Underlying().(*types.Struct); ok {
				a := rv.cur().Ref.(*Agg)
				if i < 0 || i >= len(a.v) {
					it.goPanicValue(mkStrIface(it, "reflect: Field index out of range"))
				}
				ro := rv.ro || (!st.Field(i).Exported() && st.Field(i).Pkg() != nil)
				if rv.addr != nil && rv.addr.agg && len(rv.addr.sub) == len(a.v) {
					return Value{Ref: &ReflVal{t: st.Field(i).Type(), addr: rv.addr.sub[i], ro: ro}}
				}
				return Value{Ref: &ReflVal{t: st.Field(i).Type(), v: a.v[i], ro: ro}}
			}
			it.reflKindPanic("Field", rv)
			return Value{}
		},
	}
	return m
}

func reflectTagValue(tag string) string { return tag }
