package main

import (
	"fmt"
	"go/types"
	"strings"

	"golang.org/x/tools/go/ssa"
)

// reflect-lite: reflect.Type values are tokens for go/types types. Only the
// queries that the kernels need are answered; anything else leaves the kernel.

func (eng *Engine) typeTokenFor(t types.Type) *typeToken {
	key := types.TypeString(t, nil)
	eng.tokMu.Lock()
	defer eng.tokMu.Unlock()
	if eng.typeTokens == nil {
		eng.typeTokens = map[string]*typeToken{}
	}
	if tok, ok := eng.typeTokens[key]; ok {
		return tok
	}
	tok := &typeToken{t: t}
	eng.typeTokens[key] = tok
	return tok
}

func (it *Interp) reflectTypeValue(t types.Type) Value {
	rp := it.eng.pkgs["reflect"]
	if rp == nil {
		it.unsupported("package reflect is not loaded")
	}
	rt := types.NewPointer(rp.Type("rtype").Type())
	return Value{Ref: &Iface{t: rt, v: Value{Ref: it.eng.typeTokenFor(t)}}}
}

func reflectKindOf(t types.Type) uint64 {
	switch u := t.Underlying().(type) {
	case *types.Basic:
		switch u.Kind() {
		case types.Bool, types.UntypedBool:
			return 1
		case types.Int, types.UntypedInt:
			return 2
		case types.Int8:
			return 3
		case types.Int16:
			return 4
		case types.Int32, types.UntypedRune:
			return 5
		case types.Int64:
			return 6
		case types.Uint:
			return 7
		case types.Uint8:
			return 8
		case types.Uint16:
			return 9
		case types.Uint32:
			return 10
		case types.Uint64:
			return 11
		case types.Uintptr:
			return 12
		case types.Float32:
			return 13
		case types.Float64, types.UntypedFloat:
			return 14
		case types.Complex64:
			return 15
		case types.Complex128, types.UntypedComplex:
			return 16
		case types.String, types.UntypedString:
			return 24
		case types.UnsafePointer:
			return 26
		}
	case *types.Array:
		return 17
	case *types.Chan:
		return 18
	case *types.Signature:
		return 19
	case *types.Interface:
		return 20
	case *types.Map:
		return 21
	case *types.Pointer:
		return 22
	case *types.Slice:
		return 23
	case *types.Struct:
		return 25
	}
	return 0
}

func (it *Interp) tokenArg(v Value) *typeToken {
	ifc, _ := v.Ref.(*Iface)
	if ifc == nil {
		it.goPanicRuntime("invalid memory address or nil pointer dereference")
	}
	tok, ok := ifc.v.Ref.(*typeToken)
	if !ok {
		it.unsupported("reflect.Type argument that is not a type token")
	}
	return tok
}

// reflectTypeMethod answers a method call on a reflect.Type token.
func (it *Interp) reflectTypeMethod(tok *typeToken, name string, args []Value) Value {
	t := tok.t
	switch name {
	case "Kind":
		return Value{Bits: reflectKindOf(t)}
	case "String":
		return mkStr(types.TypeString(t, func(p *types.Package) string { return p.Name() }))
	case "Name":
		if n, ok := t.(*types.Named); ok {
			return mkStr(n.Obj().Name())
		}
		if b, ok := t.(*types.Basic); ok {
			return mkStr(b.Name())
		}
		return mkStr("")
	case "PkgPath":
		if n, ok := t.(*types.Named); ok && n.Obj().Pkg() != nil {
			return mkStr(n.Obj().Pkg().Path())
		}
		return mkStr("")
	case "Comparable":
		return Value{Bits: b2u(types.Comparable(t))}
	case "Implements":
		u := it.tokenArg(args[0])
		iface, ok := u.t.Underlying().(*types.Interface)
		if !ok {
			it.goPanicValue(mkStrIface(it, "reflect: non-interface type passed to Type.Implements"))
		}
		return Value{Bits: b2u(types.Implements(t, iface))}
	case "AssignableTo":
		u := it.tokenArg(args[0])
		return Value{Bits: b2u(types.AssignableTo(t, u.t))}
	case "ConvertibleTo":
		u := it.tokenArg(args[0])
		return Value{Bits: b2u(types.ConvertibleTo(t, u.t))}
	case "Elem":
		switch u := t.Underlying().(type) {
		case *types.Pointer:
			return it.reflectTypeValue(u.Elem())
		case *types.Slice:
			return it.reflectTypeValue(u.Elem())
		case *types.Array:
			return it.reflectTypeValue(u.Elem())
		case *types.Map:
			return it.reflectTypeValue(u.Elem())
		case *types.Chan:
			return it.reflectTypeValue(u.Elem())
		}
		it.goPanicValue(mkStrIface(it, "reflect: Elem of invalid type "+typeStr(t)))
	case "Key":
		if u, ok := t.Underlying().(*types.Map); ok {
			return it.reflectTypeValue(u.Key())
		}
		it.goPanicValue(mkStrIface(it, "reflect: Key of non-map type "+typeStr(t)))
	case "Len":
		if u, ok := t.Underlying().(*types.Array); ok {
			return Value{Bits: uint64(u.Len())}
		}
		it.goPanicValue(mkStrIface(it, "reflect: Len of non-array type "+typeStr(t)))
	case "NumMethod":
		ms := it.eng.prog.MethodSets.MethodSet(t)
		n := 0
		for i := 0; i < ms.Len(); i++ {
			if ms.At(i).Obj().Exported() {
				n++
			}
		}
		if iface, ok := t.Underlying().(*types.Interface); ok {
			n = iface.NumMethods()
		}
		return Value{Bits: uint64(n)}
	case "Bits":
		if isScalar(t) {
			s, _ := scalarSort(t)
			switch s {
			case SF32:
				return Value{Bits: 32}
			case SF64:
				return Value{Bits: 64}
			case SBool:
			default:
				return Value{Bits: uint64(s)}
			}
		}
		it.goPanicValue(mkStrIface(it, "reflect: Bits of non-arithmetic Type "+typeStr(t)))
	}
	it.unsupported("reflect.Type method " + name + " is not modelled")
	return Value{}
}

func mkStrIface(it *Interp, s string) Value {
	return Value{Ref: &Iface{t: types.Typ[types.String], v: mkStr(s)}}
}

// reflect.TypeOf and reflect.TypeFor[T]
func reflectIntrinsic(eng *Engine, fn *ssa.Function, name string) intrinsic {
	switch {
	case name == "reflect.TypeOf":
		return func(it *Interp, f *ssa.Function, args []Value) Value {
			ifc, _ := args[0].Ref.(*Iface)
			if ifc == nil {
				return Value{}
			}
			if _, isTok := ifc.v.Ref.(*typeToken); isTok {
				it.unsupported("reflect.TypeOf of a reflect.Type")
			}
			return it.reflectTypeValue(ifc.t)
		}
	case strings.HasPrefix(name, "reflect.TypeFor["):
		targs := fn.TypeArgs()
		if len(targs) != 1 {
			return nil
		}
		t := targs[0]
		return func(it *Interp, f *ssa.Function, args []Value) Value {
			return it.reflectTypeValue(t)
		}
	}
	return nil
}

var _ = fmt.Sprint

// genericIntrinsic resolves intrinsics for instantiations of generic
// functions (they are created on demand and are not package members).
func (eng *Engine) genericIntrinsic(fn *ssa.Function) intrinsic {
	if v, ok := eng.genIntr.Load(fn); ok {
		in, _ := v.(intrinsic)
		return in
	}
	in := reflectIntrinsic(eng, fn, fn.String())
	if in == nil {
		eng.genIntr.Store(fn, false)
		return nil
	}
	eng.genIntr.Store(fn, in)
	return in
}
