package main

import (
	"fmt"
	"go/constant"
	"go/token"
	"go/types"
	"math"

	"golang.org/x/tools/go/ssa"
)

func (it *Interp) constValue(c *ssa.Const) Value {
	if v, ok := it.eng.consts.Load(c); ok {
		return v.(Value)
	}
	v := it.constValue1(c)
	it.eng.consts.Store(c, v)
	return v
}

func (it *Interp) constValue1(c *ssa.Const) Value {
	t := c.Type()
	if c.Value == nil {
		return zeroValue(t)
	}
	if tp, ok := t.(*types.TypeParam); ok {
		_ = tp
		it.unsupported("constant of type parameter type")
	}
	b, ok := t.Underlying().(*types.Basic)
	if !ok {
		it.unsupported("constant of type " + typeStr(t))
	}
	switch {
	case b.Info()&types.IsBoolean != 0:
		return Value{Bits: b2u(constant.BoolVal(c.Value))}
	case b.Info()&types.IsString != 0:
		return mkStr(constant.StringVal(c.Value))
	case b.Info()&types.IsInteger != 0:
		srt, _ := scalarSort(t)
		if i, ok := constant.Int64Val(constant.ToInt(c.Value)); ok {
			return Value{Bits: uint64(i) & mask(srt)}
		}
		u, _ := constant.Uint64Val(constant.ToInt(c.Value))
		return Value{Bits: u & mask(srt)}
	case b.Info()&types.IsFloat != 0:
		f, _ := constant.Float64Val(c.Value)
		if b.Kind() == types.Float32 {
			f32, _ := constant.Float32Val(c.Value)
			return Value{Bits: uint64(math.Float32bits(f32))}
		}
		return Value{Bits: math.Float64bits(f)}
	case b.Kind() == types.UnsafePointer:
		return Value{}
	}
	it.unsupported("constant of basic type " + b.String())
	return Value{}
}

// ---- scalar helpers ----

func (it *Interp) term(v Value, s Sort) *Term {
	if t, ok := v.Ref.(*Term); ok {
		return t
	}
	if v.Ref != nil {
		if p, ok := v.Ref.(*poisonT); ok {
			it.unsupported("use of poisoned value: " + p.why)
		}
		panic(fmt.Sprintf("term: not a scalar: %T", v.Ref))
	}
	return it.tt.Const(s, v.Bits)
}

func fromTerm(t *Term) Value {
	if t.op == OConst && t.big == nil {
		return Value{Bits: t.k}
	}
	return Value{Ref: t}
}

func (it *Interp) checkPoison(v Value) {
	if p, ok := v.Ref.(*poisonT); ok {
		it.unsupported("use of poisoned value: " + p.why)
	}
}

// truth turns a boolean value into a concrete bool, forking when symbolic.
func (it *Interp) truth(v Value) bool {
	if v.Ref == nil {
		return v.Bits != 0
	}
	t, ok := v.Ref.(*Term)
	if !ok {
		it.checkPoison(v)
		panic("truth: not a bool")
	}
	if it.pr == nil {
		it.unsupported("symbolic branch outside a path")
	}
	return it.pr.Decide(t)
}

// concInt makes an integer value concrete (forking over feasible values) and
// returns it sign-extended according to the type.
func (it *Interp) concInt(v Value, t types.Type) int64 {
	srt, signed := scalarSort(t)
	var bits uint64
	if v.Ref == nil {
		bits = v.Bits
	} else {
		tm, ok := v.Ref.(*Term)
		if !ok {
			it.checkPoison(v)
			panic("concInt: not an integer")
		}
		bits = it.pr.Concretize(tm)
	}
	if signed {
		return sext64(bits, srt)
	}
	return int64(bits)
}

func (it *Interp) boolVal(t *Term) Value { return fromTerm(t) }

// ---- binary operations ----

func (it *Interp) binop(op token.Token, xt types.Type, x, y Value, yt types.Type) Value {
	it.checkPoison(x)
	it.checkPoison(y)
	ut := xt.Underlying()
	switch u := ut.(type) {
	case *types.Basic:
		switch {
		case u.Info()&types.IsString != 0:
			return it.stringBinop(op, x, y)
		case u.Info()&types.IsBoolean != 0:
			return it.boolBinop(op, x, y)
		case u.Info()&types.IsFloat != 0:
			return it.floatBinop(op, xt, x, y)
		case u.Info()&types.IsInteger != 0:
			return it.intBinop(op, xt, x, y, yt)
		case u.Kind() == types.UnsafePointer:
			if op == token.EQL || op == token.NEQ {
				return Value{Bits: b2u((x.Ref == y.Ref) == (op == token.EQL))}
			}
		case u.Kind() == types.UntypedNil:
			return Value{Bits: b2u(op == token.EQL)}
		case u.Info()&types.IsComplex != 0:
			it.unsupported("complex arithmetic")
		}
	}
	if op == token.EQL || op == token.NEQ {
		eq := it.equal(xt, x, y)
		if op == token.NEQ {
			return it.not(eq)
		}
		return eq
	}
	it.unsupported(fmt.Sprintf("binop %s on %s", op, typeStr(xt)))
	return Value{}
}

func (it *Interp) not(v Value) Value {
	if v.Ref == nil {
		return Value{Bits: v.Bits ^ 1}
	}
	return fromTerm(it.tt.Not(v.Ref.(*Term)))
}

func (it *Interp) boolBinop(op token.Token, x, y Value) Value {
	if x.Ref == nil && y.Ref == nil {
		switch op {
		case token.EQL:
			return Value{Bits: b2u(x.Bits == y.Bits)}
		case token.NEQ:
			return Value{Bits: b2u(x.Bits != y.Bits)}
		case token.AND, token.LAND:
			return Value{Bits: x.Bits & y.Bits}
		case token.OR, token.LOR:
			return Value{Bits: x.Bits | y.Bits}
		}
	}
	a, b := it.term(x, SBool), it.term(y, SBool)
	switch op {
	case token.EQL:
		return fromTerm(it.tt.Eq(a, b))
	case token.NEQ:
		return fromTerm(it.tt.Not(it.tt.Eq(a, b)))
	case token.AND, token.LAND:
		return fromTerm(it.tt.And(a, b))
	case token.OR, token.LOR:
		return fromTerm(it.tt.Or(a, b))
	}
	it.unsupported("bool binop " + op.String())
	return Value{}
}

func (it *Interp) intBinop(op token.Token, xt types.Type, x, y Value, yt types.Type) Value {
	w, signed := scalarSort(xt)
	tt := it.tt
	switch op {
	case token.SHL, token.SHR:
		return it.shift(op, xt, x, y, yt)
	case token.QUO, token.REM:
		// division by zero panics
		if y.Ref == nil {
			if y.Bits == 0 {
				it.goPanicRuntime("integer divide by zero")
			}
		} else {
			z := tt.Eq(y.Ref.(*Term), tt.Const(w, 0))
			if it.pr.Decide(z) {
				it.goPanicRuntime("integer divide by zero")
			}
		}
	}
	if x.Ref == nil && y.Ref == nil {
		a, b := x.Bits, y.Bits
		var o Op
		switch op {
		case token.ADD:
			o = OAdd
		case token.SUB:
			o = OSub
		case token.MUL:
			o = OMul
		case token.QUO:
			o = OUDiv
			if signed {
				o = OSDiv
			}
		case token.REM:
			o = OURem
			if signed {
				o = OSRem
			}
		case token.AND:
			o = OBAnd
		case token.OR:
			o = OBOr
		case token.XOR:
			o = OBXor
		case token.AND_NOT:
			return Value{Bits: a &^ b}
		case token.EQL:
			return Value{Bits: b2u(a == b)}
		case token.NEQ:
			return Value{Bits: b2u(a != b)}
		case token.LSS, token.LEQ, token.GTR, token.GEQ:
			var r bool
			if signed {
				sa, sb := sext64(a, w), sext64(b, w)
				switch op {
				case token.LSS:
					r = sa < sb
				case token.LEQ:
					r = sa <= sb
				case token.GTR:
					r = sa > sb
				default:
					r = sa >= sb
				}
			} else {
				switch op {
				case token.LSS:
					r = a < b
				case token.LEQ:
					r = a <= b
				case token.GTR:
					r = a > b
				default:
					r = a >= b
				}
			}
			return Value{Bits: b2u(r)}
		default:
			it.unsupported("int binop " + op.String())
		}
		r, _ := foldBV(o, w, a, b)
		return Value{Bits: r}
	}
	a, b := it.term(x, w), it.term(y, w)
	switch op {
	case token.ADD:
		return fromTerm(tt.Bin(OAdd, a, b))
	case token.SUB:
		return fromTerm(tt.Bin(OSub, a, b))
	case token.MUL:
		return fromTerm(tt.Bin(OMul, a, b))
	case token.QUO:
		if signed {
			return fromTerm(tt.Bin(OSDiv, a, b))
		}
		return fromTerm(tt.Bin(OUDiv, a, b))
	case token.REM:
		if signed {
			return fromTerm(tt.Bin(OSRem, a, b))
		}
		return fromTerm(tt.Bin(OURem, a, b))
	case token.AND:
		return fromTerm(tt.Bin(OBAnd, a, b))
	case token.OR:
		return fromTerm(tt.Bin(OBOr, a, b))
	case token.XOR:
		return fromTerm(tt.Bin(OBXor, a, b))
	case token.AND_NOT:
		return fromTerm(tt.Bin(OBAnd, a, tt.Un(OBNot, b)))
	case token.EQL:
		return fromTerm(tt.Eq(a, b))
	case token.NEQ:
		return fromTerm(tt.Not(tt.Eq(a, b)))
	case token.LSS:
		if signed {
			return fromTerm(tt.Cmp(OSlt, a, b))
		}
		return fromTerm(tt.Cmp(OUlt, a, b))
	case token.LEQ:
		if signed {
			return fromTerm(tt.Cmp(OSle, a, b))
		}
		return fromTerm(tt.Cmp(OUle, a, b))
	case token.GTR:
		if signed {
			return fromTerm(tt.Cmp(OSlt, b, a))
		}
		return fromTerm(tt.Cmp(OUlt, b, a))
	case token.GEQ:
		if signed {
			return fromTerm(tt.Cmp(OSle, b, a))
		}
		return fromTerm(tt.Cmp(OUle, b, a))
	}
	it.unsupported("int binop " + op.String())
	return Value{}
}

// shift implements Go's shift semantics: the count is unsigned or a signed
// value that panics when negative; counts >= width give 0 / sign fill.
func (it *Interp) shift(op token.Token, xt types.Type, x, y Value, yt types.Type) Value {
	w, signed := scalarSort(xt)
	yw, ysigned := scalarSort(yt)
	tt := it.tt
	if ysigned {
		if y.Ref == nil {
			if sext64(y.Bits, yw) < 0 {
				it.goPanicRuntime("negative shift amount")
			}
		} else {
			neg := tt.Cmp(OSlt, y.Ref.(*Term), tt.Const(yw, 0))
			if it.pr.Decide(neg) {
				it.goPanicRuntime("negative shift amount")
			}
		}
	}
	if x.Ref == nil && y.Ref == nil {
		cnt := y.Bits
		o := OShl
		if op == token.SHR {
			o = OLShr
			if signed {
				o = OAShr
			}
		}
		r, _ := foldBV(o, w, x.Bits, cnt)
		return Value{Bits: r}
	}
	a := it.term(x, w)
	c := it.term(y, yw)
	// bring the count to width w, saturating
	var cw *Term
	switch {
	case yw == w:
		cw = c
	case yw < w:
		cw = tt.Zext(c, w)
	default:
		// count wider than operand: saturate to w when any high bit is set or value >= w
		big := tt.Cmp(OUle, tt.Const(yw, uint64(w)), c)
		cw = tt.Ite(big, tt.Const(w, uint64(w)), tt.Extract(c, int(w)-1, 0))
	}
	var o Op
	switch {
	case op == token.SHL:
		o = OShl
	case signed:
		o = OAShr
	default:
		o = OLShr
	}
	return fromTerm(tt.Bin(o, a, cw))
}

func (it *Interp) floatBinop(op token.Token, xt types.Type, x, y Value) Value {
	s, _ := scalarSort(xt)
	if x.Ref == nil && y.Ref == nil {
		var a, b float64
		if s == SF64 {
			a, b = math.Float64frombits(x.Bits), math.Float64frombits(y.Bits)
		} else {
			a, b = float64(math.Float32frombits(uint32(x.Bits))), float64(math.Float32frombits(uint32(y.Bits)))
		}
		var r float64
		switch op {
		case token.ADD:
			r = a + b
		case token.SUB:
			r = a - b
		case token.MUL:
			r = a * b
		case token.QUO:
			r = a / b
		case token.EQL:
			return Value{Bits: b2u(a == b)}
		case token.NEQ:
			return Value{Bits: b2u(a != b)}
		case token.LSS:
			return Value{Bits: b2u(a < b)}
		case token.LEQ:
			return Value{Bits: b2u(a <= b)}
		case token.GTR:
			return Value{Bits: b2u(a > b)}
		case token.GEQ:
			return Value{Bits: b2u(a >= b)}
		default:
			it.unsupported("float binop " + op.String())
		}
		if s == SF32 {
			// float32 arithmetic: operate in float32
			fa, fb := math.Float32frombits(uint32(x.Bits)), math.Float32frombits(uint32(y.Bits))
			var fr float32
			switch op {
			case token.ADD:
				fr = fa + fb
			case token.SUB:
				fr = fa - fb
			case token.MUL:
				fr = fa * fb
			case token.QUO:
				fr = fa / fb
			}
			return Value{Bits: uint64(math.Float32bits(fr))}
		}
		return Value{Bits: math.Float64bits(r)}
	}
	tt := it.tt
	a, b := it.term(x, s), it.term(y, s)
	switch op {
	case token.ADD:
		return fromTerm(tt.FBin(OFAdd, a, b))
	case token.SUB:
		return fromTerm(tt.FBin(OFSub, a, b))
	case token.MUL:
		return fromTerm(tt.FBin(OFMul, a, b))
	case token.QUO:
		return fromTerm(tt.FBin(OFDiv, a, b))
	case token.EQL:
		return fromTerm(tt.FCmp(OFEq, a, b))
	case token.NEQ:
		return fromTerm(tt.Not(tt.FCmp(OFEq, a, b)))
	case token.LSS:
		return fromTerm(tt.FCmp(OFLt, a, b))
	case token.LEQ:
		return fromTerm(tt.FCmp(OFLe, a, b))
	case token.GTR:
		return fromTerm(tt.FCmp(OFLt, b, a))
	case token.GEQ:
		return fromTerm(tt.FCmp(OFLe, b, a))
	}
	it.unsupported("float binop " + op.String())
	return Value{}
}

func (it *Interp) stringBinop(op token.Token, x, y Value) Value {
	a, b := x.Ref.(*Str), y.Ref.(*Str)
	tt := it.tt
	switch op {
	case token.ADD:
		if a.Len() == 0 {
			return y
		}
		if b.Len() == 0 {
			return x
		}
		if a.Concrete() && b.Concrete() {
			return mkStr(a.s + b.s)
		}
		bs := make([]Value, 0, a.Len()+b.Len())
		bs = append(bs, a.Bytes()...)
		bs = append(bs, b.Bytes()...)
		return mkStrBytes(bs)
	case token.EQL, token.NEQ:
		eq := it.strEq(a, b)
		if op == token.NEQ {
			return it.not(eq)
		}
		return eq
	case token.LSS, token.LEQ, token.GTR, token.GEQ:
		if a.Concrete() && b.Concrete() {
			var r bool
			switch op {
			case token.LSS:
				r = a.s < b.s
			case token.LEQ:
				r = a.s <= b.s
			case token.GTR:
				r = a.s > b.s
			default:
				r = a.s >= b.s
			}
			return Value{Bits: b2u(r)}
		}
		if op == token.GTR || op == token.GEQ {
			a, b = b, a
		}
		// a < b (strict) or a <= b, lexicographic on bytes
		strict := op == token.LSS || op == token.GTR
		n := a.Len()
		if b.Len() < n {
			n = b.Len()
		}
		// base: after the common prefix
		var res *Term
		if strict {
			res = tt.Bool(a.Len() < b.Len())
		} else {
			res = tt.Bool(a.Len() <= b.Len())
		}
		for i := n - 1; i >= 0; i-- {
			ai, bi := it.term(a.At(i), 8), it.term(b.At(i), 8)
			res = tt.Ite(tt.Cmp(OUlt, ai, bi), tt.True, tt.Ite(tt.Eq(ai, bi), res, tt.False))
		}
		return fromTerm(res)
	}
	it.unsupported("string binop " + op.String())
	return Value{}
}

func (it *Interp) strEq(a, b *Str) Value {
	if a.Len() != b.Len() {
		return Value{Bits: 0}
	}
	if a.Concrete() && b.Concrete() {
		return Value{Bits: b2u(a.s == b.s)}
	}
	tt := it.tt
	res := tt.True
	for i := 0; i < a.Len(); i++ {
		x, y := a.At(i), b.At(i)
		if x.Ref == nil && y.Ref == nil {
			if x.Bits != y.Bits {
				return Value{Bits: 0}
			}
			continue
		}
		res = tt.And(res, tt.Eq(it.term(x, 8), it.term(y, 8)))
	}
	return fromTerm(res)
}

// equal implements == for comparable non-basic types.
func (it *Interp) equal(t types.Type, x, y Value) Value {
	it.checkPoison(x)
	it.checkPoison(y)
	switch u := t.Underlying().(type) {
	case *types.Basic:
		return it.binop(token.EQL, t, x, y, t)
	case *types.Pointer, *types.Chan, *types.Signature, *types.Map, *types.Slice:
		if s, ok := x.Ref.(Slice); ok {
			_ = s
			return Value{Bits: 0} // slice compared with nil: non-nil
		}
		if s, ok := y.Ref.(Slice); ok {
			_ = s
			return Value{Bits: 0}
		}
		return Value{Bits: b2u(x.Ref == y.Ref)}
	case *types.Interface:
		xi, _ := x.Ref.(*Iface)
		yi, _ := y.Ref.(*Iface)
		if xi == nil || yi == nil {
			return Value{Bits: b2u(xi == nil && yi == nil)}
		}
		if !types.Identical(xi.t, yi.t) {
			return Value{Bits: 0}
		}
		if !types.Comparable(xi.t) {
			it.goPanicRuntime("comparing uncomparable type " + typeStr(xi.t))
		}
		return it.equal(xi.t, xi.v, yi.v)
	case *types.Struct:
		if isReflectValueType(t) {
			return it.reflValueEqual(x, y)
		}
		xa, ya := x.Ref.(*Agg), y.Ref.(*Agg)
		res := Value{Bits: 1}
		for i := 0; i < u.NumFields(); i++ {
			if u.Field(i).Name() == "_" {
				continue
			}
			res = it.and(res, it.equal(u.Field(i).Type(), xa.v[i], ya.v[i]))
			if res.Ref == nil && res.Bits == 0 {
				return res
			}
		}
		return res
	case *types.Array:
		xa, ya := x.Ref.(*Agg), y.Ref.(*Agg)
		res := Value{Bits: 1}
		for i := range xa.v {
			res = it.and(res, it.equal(u.Elem(), xa.v[i], ya.v[i]))
			if res.Ref == nil && res.Bits == 0 {
				return res
			}
		}
		return res
	}
	it.unsupported("equality on " + typeStr(t))
	return Value{}
}

func (it *Interp) and(a, b Value) Value {
	if a.Ref == nil {
		if a.Bits == 0 {
			return a
		}
		return b
	}
	if b.Ref == nil {
		if b.Bits == 0 {
			return b
		}
		return a
	}
	return fromTerm(it.tt.And(a.Ref.(*Term), b.Ref.(*Term)))
}

func (it *Interp) or(a, b Value) Value {
	if a.Ref == nil {
		if a.Bits != 0 {
			return a
		}
		return b
	}
	if b.Ref == nil {
		if b.Bits != 0 {
			return b
		}
		return a
	}
	return fromTerm(it.tt.Or(a.Ref.(*Term), b.Ref.(*Term)))
}

// ---- unary ----

func (it *Interp) unop(ins *ssa.UnOp, x Value) Value {
	it.checkPoison(x)
	t := ins.X.Type()
	switch ins.Op {
	case token.NOT:
		return it.not(x)
	case token.SUB:
		s, _ := scalarSort(t)
		if s == SF64 || s == SF32 {
			if x.Ref == nil {
				if s == SF64 {
					return Value{Bits: x.Bits ^ (1 << 63)}
				}
				return Value{Bits: x.Bits ^ (1 << 31)}
			}
			return fromTerm(it.tt.FUn(OFNeg, s, x.Ref.(*Term)))
		}
		if x.Ref == nil {
			return Value{Bits: -x.Bits & mask(s)}
		}
		return fromTerm(it.tt.Un(ONeg, x.Ref.(*Term)))
	case token.XOR:
		s, _ := scalarSort(t)
		if x.Ref == nil {
			return Value{Bits: ^x.Bits & mask(s)}
		}
		return fromTerm(it.tt.Un(OBNot, x.Ref.(*Term)))
	}
	it.unsupported("unop " + ins.Op.String())
	return Value{}
}

// ---- conversions ----

func (it *Interp) convert(v Value, from, to types.Type) Value {
	it.checkPoison(v)
	fu, tu := from.Underlying(), to.Underlying()
	fb, fok := fu.(*types.Basic)
	tb, tok := tu.(*types.Basic)
	tt := it.tt
	switch {
	case fok && tok && fb.Info()&types.IsNumeric != 0 && tb.Info()&types.IsNumeric != 0:
		if fb.Info()&types.IsComplex != 0 || tb.Info()&types.IsComplex != 0 {
			it.unsupported("complex conversion")
		}
		fs, fsigned := scalarSort(from)
		ts, tsigned := scalarSort(to)
		fInt, tInt := fs > 0, ts > 0
		switch {
		case fInt && tInt:
			if v.Ref == nil {
				x := v.Bits
				if fsigned {
					x = uint64(sext64(x, fs))
				}
				return Value{Bits: x & mask(ts)}
			}
			t := v.Ref.(*Term)
			if ts <= fs {
				return fromTerm(tt.Extract(t, int(ts)-1, 0))
			}
			if fsigned {
				return fromTerm(tt.Sext(t, ts))
			}
			return fromTerm(tt.Zext(t, ts))
		case fInt && !tInt:
			op := OUBVToF
			if fsigned {
				op = OSBVToF
			}
			return fromTerm(tt.FUn(op, ts, it.term(v, fs)))
		case !fInt && tInt:
			// Go leaves out-of-range float->integer conversions implementation
			// defined; the model is what gc emits on amd64 (cvttsd2sq: the
			// "integer indefinite" 0x8000000000000000 outside int64; uint64(f) is
			// int64(f) below 2^63 and int64(f-2^63)^(1<<63) from 2^63 on).
			ft := it.term(v, fs)
			if fs == SF32 {
				ft = tt.FUn(OFToF, SF64, ft)
			}
			r := it.floatToInt64(ft, tsigned)
			if ts < 64 {
				if r.Ref == nil {
					return Value{Bits: r.Bits & mask(ts)}
				}
				return fromTerm(tt.Extract(r.Ref.(*Term), int(ts)-1, 0))
			}
			return r
		default:
			return fromTerm(tt.FUn(OFToF, ts, it.term(v, fs)))
		}
	case tok && tb.Info()&types.IsString != 0:
		// to string
		if fok && fb.Info()&types.IsInteger != 0 {
			// string(rune)
			if v.Ref == nil {
				r := it.concInt(v, from)
				if r < 0 || r > 0x10FFFF {
					r = 0xFFFD
				}
				return mkStr(string(rune(r)))
			}
			// symbolic: encode with the real unicode/utf8 code
			fs, fsigned := scalarSort(from)
			t := v.Ref.(*Term)
			var t64 *Term
			if fsigned {
				t64 = tt.Sext(t, 64)
			} else {
				t64 = tt.Zext(t, 64)
			}
			_ = fs
			if !it.pr.Decide(tt.Cmp(OUle, t64, tt.Const(64, 0x10FFFF))) {
				return mkStr("\uFFFD")
			}
			fn := it.eng.pkgs["unicode/utf8"].Func("AppendRune")
			res := it.callFunction(fn, []Value{{}, fromTerm(tt.Extract(t64, 31, 0))}, nil, nil)
			sl, _ := res.Ref.(Slice)
			bs := make([]Value, sl.n)
			for i := range bs {
				bs[i] = sl.c[i].v
			}
			return mkStrBytes(bs)
		}
		if fok && fb.Info()&types.IsString != 0 {
			return v
		}
		if sl, ok := fu.(*types.Slice); ok {
			eb, _ := sl.Elem().Underlying().(*types.Basic)
			s, _ := v.Ref.(Slice)
			if eb != nil && eb.Kind() == types.Uint8 {
				bs := make([]Value, s.n)
				for i := 0; i < s.n; i++ {
					bs[i] = s.c[i].v
					it.checkPoison(bs[i])
				}
				return mkStrBytes(bs)
			}
			if eb != nil && eb.Kind() == types.Int32 {
				var out []Value
				for i := 0; i < s.n; i++ {
					r := it.concInt(s.c[i].v, sl.Elem())
					if r < 0 || r > 0x10FFFF || (r >= 0xD800 && r <= 0xDFFF) {
						r = 0xFFFD
					}
					for _, b := range []byte(string(rune(r))) {
						out = append(out, Value{Bits: uint64(b)})
					}
				}
				return mkStrBytes(out)
			}
		}
	case fok && fb.Info()&types.IsString != 0:
		if sl, ok := tu.(*types.Slice); ok {
			eb, _ := sl.Elem().Underlying().(*types.Basic)
			s := v.Ref.(*Str)
			if eb != nil && eb.Kind() == types.Uint8 {
				n := s.Len()
				cells := make([]*Cell, n)
				for i := 0; i < n; i++ {
					cells[i] = &Cell{v: s.At(i), epoch: it.epoch, typ: sl.Elem()}
				}
				return Value{Ref: Slice{c: cells, n: n}}
			}
			if eb != nil && eb.Kind() == types.Int32 {
				// []rune(s): decode with the real utf8 code
				var cells []*Cell
				pos := 0
				for pos < s.Len() {
					r, sz := it.decodeRune(s, pos)
					cells = append(cells, &Cell{v: r, epoch: it.epoch, typ: sl.Elem()})
					pos += sz
				}
				return Value{Ref: Slice{c: cells, n: len(cells)}}
			}
		}
	case fok && fb.Kind() == types.UnsafePointer || tok && tb.Kind() == types.UnsafePointer:
		it.unsupported("unsafe.Pointer conversion")
	}
	// slice to array pointer etc. are separate instructions; same underlying
	if types.Identical(fu, tu) {
		return v
	}
	it.unsupported(fmt.Sprintf("conversion %s -> %s", typeStr(from), typeStr(to)))
	return Value{}
}

// floatToInt64 converts a float64 term to a 64-bit integer with amd64 semantics.
func (it *Interp) floatToInt64(f *Term, signed bool) Value {
	tt := it.tt
	c := func(x float64) *Term { return tt.Const(SF64, math.Float64bits(x)) }
	const two63 = 9223372036854775808.0
	indefinite := Value{Bits: 1 << 63}
	toS := func(x *Term) Value {
		// in range: -2^63 <= x < 2^63 (NaN fails both comparisons)
		in := tt.And(tt.FCmp(OFLe, c(-two63), x), tt.FCmp(OFLt, x, c(two63)))
		if it.truth(fromTerm(in)) {
			if x.op == OConst {
				return Value{Bits: uint64(int64(constFloat(x)))}
			}
			return fromTerm(tt.FUn(OFToSBV, 64, x))
		}
		return indefinite
	}
	if signed {
		return toS(f)
	}
	if it.truth(fromTerm(tt.FCmp(OFLt, f, c(two63)))) {
		return toS(f)
	}
	// f >= 2^63 or NaN
	r := toS(tt.FBin(OFSub, f, c(two63)))
	if r.Ref == nil {
		return Value{Bits: r.Bits ^ (1 << 63)}
	}
	return fromTerm(tt.Bin(OBXor, r.Ref.(*Term), tt.Const(64, 1<<63)))
}
