package builtin

import (
	"unicode"
	"unicode/utf8"

	"github.com/open2b/scriggo/native"
)

// C25: builtin functions honour their documentation and never panic instead
// of returning an error.

func vhexval(c byte) int {
	switch {
	case '0' <= c && c <= '9':
		return int(c - '0')
	case 'a' <= c && c <= 'f':
		return int(c-'a') + 10
	case 'A' <= c && c <= 'F':
		return int(c-'A') + 10
	}
	return -1
}

func vunreserved(c byte) bool {
	return '0' <= c && c <= '9' || 'a' <= c && c <= 'z' || 'A' <= c && c <= 'Z' || c == '-' || c == '.' || c == '_'
}

func vc25_queryescape(n int) {
	s := vsym_string(n)
	out := QueryEscape(s)
	// only unreserved characters and %HH; percent-decodes to the input
	var dec []byte
	for i := 0; i < len(out); {
		c := out[i]
		if c == '%' {
			vassert(i+2 < len(out) && vhexval(out[i+1]) >= 0 && vhexval(out[i+2]) >= 0, "percent-followed-by-two-hex")
			dec = append(dec, byte(vhexval(out[i+1])<<4|vhexval(out[i+2])))
			i += 3
			continue
		}
		vassert(vunreserved(c), "only-unreserved-or-escape")
		dec = append(dec, c)
		i++
	}
	vassert(string(dec) == s, "percent-decodes-to-input")
}

func vruneCount(s string) int {
	n := 0
	for range s {
		n++
	}
	return n
}

func vtrimRightSpaces(s string) string {
	for len(s) > 0 {
		c := s[len(s)-1]
		if c == ' ' || c == '\n' || c == '\r' || c == '\t' || c == '\f' {
			s = s[:len(s)-1]
			continue
		}
		break
	}
	return s
}

func vc25_abbreviate(maxLen int) {
	s := vsym_string(maxLen)
	n := vsym_int()
	out := Abbreviate(s, n)
	// "Abbreviate never exceeds the requested length": whatever s and n are,
	// the result has at most max(n, 0) runes, or is the (right-trimmed) input
	// when that already fits in n bytes.
	t := vtrimRightSpaces(s)
	lim := n
	if lim < 0 {
		lim = 0
	}
	vassert(vruneCount(out) <= lim, "never-exceeds-n-runes")
	if len(t) <= n {
		vassert(out == t, "fitting-string-unchanged")
	} else if n >= 3 && vruneCount(t) > n {
		vassert(len(out) >= 3 && out[len(out)-3:] == "...", "abbreviated-string-ends-with-dots")
	}
}

func vc25_absminmax() {
	x, y := vsym_int(), vsym_int()
	a := Abs(x)
	const minInt = -1 << 63
	if x == minInt {
		vassert(a == x, "abs-minint-documented-special-case")
	} else {
		vassert(a >= 0 && (a == x || a == -x), "abs")
	}
	mx, mn := Max(x, y), Min(x, y)
	vassert(mx >= x && mx >= y && (mx == x || mx == y), "max")
	vassert(mn <= x && mn <= y && (mn == x || mn == y), "min")
}

func visJSONSpace(c byte) bool { return c == ' ' || c == '\t' || c == '\n' || c == '\r' }

func vc25_onlyws(n int) {
	s := vsym_string(n)
	got := onlyJSONWhitespace(s)
	want := true
	for i := 0; i < len(s); i++ {
		want = vand(want, visJSONSpace(s[i]))
	}
	vassert(got == want, "only-json-whitespace")
}

// vc25_marshalindent: MarshalJSONIndent is documented to return an error when
// prefix or indent contain anything but JSON whitespace; it must not panic.
func vc25_marshalindent(n int) {
	prefix := vsym_string(n)
	indent := vsym_string(n)
	bad := false
	for i := 0; i < len(prefix); i++ {
		bad = vor(bad, !visJSONSpace(prefix[i]))
	}
	for i := 0; i < len(indent); i++ {
		bad = vor(bad, !visJSONSpace(indent[i]))
	}
	vassume(bad) // the JSON encoder itself is outside the kernel
	_, err := MarshalJSONIndent(nil, prefix, indent)
	vassert(err != nil, "error-for-non-whitespace-prefix-or-indent")
}

func vc25_trimjson(n int) {
	s := vsym_string(n)
	has := false
	for i := 0; i < len(s); i++ {
		has = vor(has, !visJSONSpace(s[i]))
	}
	vassume(has) // IndentJSON is documented to panic on invalid JSON (all blank is invalid)
	out := string(trimJSONSpace(native.JSON(s)))
	i, j := 0, len(s)
	for i < j && visJSONSpace(s[i]) {
		i++
	}
	for j > i && visJSONSpace(s[j-1]) {
		j--
	}
	vassert(out == s[i:j], "trim-json-space")
}

func visASCIIAlnum(c byte) bool {
	return '0' <= c && c <= '9' || 'a' <= c && c <= 'z' || 'A' <= c && c <= 'Z'
}

// vc25_capitalize (ASCII): the first non-separator byte is upper-cased,
// nothing else changes.
func vc25_capitalize(n int) {
	s := vsym_string(n)
	for i := 0; i < len(s); i++ {
		vassume(s[i] < 0x80)
	}
	out := Capitalize(s)
	vassert(len(out) == len(s), "same-length")
	k := 0
	for k < len(s) && !(visASCIIAlnum(s[k]) || s[k] == '_') {
		k++
	}
	for i := 0; i < len(s); i++ {
		want := s[i]
		if i == k && 'a' <= want && want <= 'z' {
			want -= 'a' - 'A'
		}
		vassert(out[i] == want, "capitalize-ascii")
	}
}

// vc25_tokebab (ASCII): no panic; the result contains only lower-case
// letters, digits and single dashes, never leading or trailing.
func vc25_tokebab(n int) {
	s := vsym_string(n)
	for i := 0; i < len(s); i++ {
		vassume(s[i] < 0x80)
	}
	out := ToKebab(s)
	for i := 0; i < len(out); i++ {
		c := out[i]
		vassert('a' <= c && c <= 'z' || '0' <= c && c <= '9' || c == '-', "kebab-charset")
		if c == '-' {
			vassert(i > 0 && i+1 < len(out) && out[i+1] != '-', "dash-only-between-words")
		}
	}
}

// CapitalizeAll and Capitalize against their documentation for every valid
// UTF-8 string: the first letter of each word (of the string) in upper case
// as Unicode defines it (case mappings are exact for every rune; the letter
// and space classes above U+00FF are any consistent classification)
func vc25_capitalizeall(n int) {
	s := vsym_string(n)
	vassume(utf8.ValidString(s))
	var want []byte
	prev := ' '
	for _, r := range s {
		u := r
		if isSeparator(prev) {
			u = unicode.ToUpper(r)
		}
		prev = r
		want = utf8.AppendRune(want, u)
	}
	vassert(CapitalizeAll(s) == string(want), "capitalizeall-upper-cases-the-first-letter-of-each-word")
	// Capitalize: the first non-separator rune in upper case, the rest unchanged
	var want1 []byte
	done := false
	for _, r := range s {
		if !done && !isSeparator(r) {
			r = unicode.ToUpper(r)
			done = true
		}
		want1 = utf8.AppendRune(want1, r)
	}
	vassert(Capitalize(s) == string(want1), "capitalize-upper-cases-the-first-non-separator")
}

// non-ASCII inputs: only absence of panics (Unicode classes are uninterpreted)
func vc25_nopanic(n int) {
	s := vsym_string(n)
	_ = Capitalize(s)
	_ = CapitalizeAll(s)
	_ = ToKebab(s)
	_ = Abbreviate(s, vsym_int())
	_ = RuneCount(s)
}

// UnmarshalJSON and UnmarshalYAML are documented to return an error, not to
// panic, when v is nil or not a (non-nil) pointer, whatever its type.
func vc25_unmarshal_badarg() {
	s := vsym_string(2)
	var v any
	switch vsym_choice(12) {
	case 0:
		v = nil
	case 1:
		v = 5
	case 2:
		v = "x"
	case 3:
		v = 1.5
	case 4:
		v = true
	case 5:
		v = struct{ A int }{1}
	case 6:
		v = []int{}
	case 7:
		v = map[string]int{}
	case 8:
		v = [2]int{}
	case 9:
		v = (*int)(nil)
	case 10:
		v = func() {}
	case 11:
		v = uint8(3)
	}
	var e1, e2 error
	func() {
		defer func() {
			vassert(recover() == nil, "unmarshal-returns-an-error-instead-of-panicking")
		}()
		e1 = UnmarshalJSON(s, v)
		e2 = UnmarshalYAML(s, v)
	}()
	vassert(e1 != nil && e2 != nil, "unmarshal-into-nil-or-non-pointer-is-an-error")
	vreach("end")
}

func vh_c25_unmarshal_badarg_q() { vc25_unmarshal_badarg() }
func vh_c25_queryescape_q()   { vc25_queryescape(3) }
func vh_c25_queryescape_t()   { vc25_queryescape(4) }
func vh_c25_abbreviate_q()    { vc25_abbreviate(4) }
func vh_c25_abbreviate_t()    { vc25_abbreviate(6) }
func vh_c25_absminmax_q()     { vc25_absminmax() }
func vh_c25_onlyws_q()        { vc25_onlyws(4) }
func vh_c25_onlyws_t()        { vc25_onlyws(7) }
func vh_c25_marshalindent_q() { vc25_marshalindent(2) }
func vh_c25_marshalindent_t() { vc25_marshalindent(3) }
func vh_c25_trimjson_q()      { vc25_trimjson(4) }
func vh_c25_trimjson_t()      { vc25_trimjson(6) }
func vh_c25_capitalize_q()    { vc25_capitalize(3) }
func vh_c25_capitalize_t()    { vc25_capitalize(5) }
func vh_c25_tokebab_q()       { vc25_tokebab(3) }
func vh_c25_tokebab_t()       { vc25_tokebab(4) }
func vh_c25_nopanic_q()       { vc25_nopanic(2) }
func vh_c25_capitalizeall_q() { vc25_capitalizeall(3) }
func vh_c25_capitalizeall_t() { vc25_capitalizeall(4) }
func vh_c25_nopanic_t()       { vc25_nopanic(3) }
