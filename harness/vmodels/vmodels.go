// Package vmodels holds reference bodies, in plain Go, for functions the
// symbolic executor cannot run from their own source (assembly, unsafe,
// runtime internals). They are compiled to SSA and executed symbolically like
// any other code: they are code, not axioms.
package vmodels

// RuntimeError is the dynamic type of run-time panics raised by the engine
// (index out of range, nil dereference, divide by zero, ...). It implements
// runtime.Error.
type RuntimeError struct{ Msg string }

func (e RuntimeError) Error() string { return "runtime error: " + e.Msg }
func (e RuntimeError) RuntimeError() {}

func IndexByte(b []byte, c byte) int {
	for i := 0; i < len(b); i++ {
		if b[i] == c {
			return i
		}
	}
	return -1
}

func IndexByteString(s string, c byte) int {
	for i := 0; i < len(s); i++ {
		if s[i] == c {
			return i
		}
	}
	return -1
}

func LastIndexByte(b []byte, c byte) int {
	for i := len(b) - 1; i >= 0; i-- {
		if b[i] == c {
			return i
		}
	}
	return -1
}

func LastIndexByteString(s string, c byte) int {
	for i := len(s) - 1; i >= 0; i-- {
		if s[i] == c {
			return i
		}
	}
	return -1
}

func Index(a, b []byte) int {
	n := len(b)
	for i := 0; i+n <= len(a); i++ {
		j := 0
		for j < n && a[i+j] == b[j] {
			j++
		}
		if j == n {
			return i
		}
	}
	return -1
}

func IndexString(a, b string) int {
	n := len(b)
	for i := 0; i+n <= len(a); i++ {
		j := 0
		for j < n && a[i+j] == b[j] {
			j++
		}
		if j == n {
			return i
		}
	}
	return -1
}

func LastIndexString(a, b string) int {
	n := len(b)
	for i := len(a) - n; i >= 0; i-- {
		j := 0
		for j < n && a[i+j] == b[j] {
			j++
		}
		if j == n {
			return i
		}
	}
	return -1
}

func Count(b []byte, c byte) int {
	n := 0
	for _, x := range b {
		if x == c {
			n++
		}
	}
	return n
}

func CountString(s string, c byte) int {
	n := 0
	for i := 0; i < len(s); i++ {
		if s[i] == c {
			n++
		}
	}
	return n
}

// CountStringAny models strings.Count(s, substr).
func CountStringAny(s, substr string) int {
	if len(substr) == 0 {
		n := 0
		for range s {
			n++
		}
		return n + 1
	}
	n := 0
	for {
		i := IndexString(s, substr)
		if i == -1 {
			return n
		}
		n++
		s = s[i+len(substr):]
	}
}

func Equal(a, b []byte) bool {
	if len(a) != len(b) {
		return false
	}
	for i := range a {
		if a[i] != b[i] {
			return false
		}
	}
	return true
}

func Compare(a, b []byte) int {
	n := len(a)
	if len(b) < n {
		n = len(b)
	}
	for i := 0; i < n; i++ {
		if a[i] != b[i] {
			if a[i] < b[i] {
				return -1
			}
			return 1
		}
	}
	if len(a) < len(b) {
		return -1
	}
	if len(a) > len(b) {
		return 1
	}
	return 0
}

func CompareString(a, b string) int {
	if a == b {
		return 0
	}
	if a < b {
		return -1
	}
	return 1
}

func HasPrefix(s, p string) bool { return len(s) >= len(p) && s[:len(p)] == p }
func HasSuffix(s, p string) bool { return len(s) >= len(p) && s[len(s)-len(p):] == p }
func CloneString(s string) string { return s }
func MakeNoZero(n int) []byte    { return make([]byte, n) }


// Unsupported ends the current path as "left the modelled kernel"; the engine
// intercepts it.
func Unsupported(msg string) { panic("verif: unsupported: " + msg) }

// HTMLUnescape models html.UnescapeString for the strings the renderer gives
// it: it decodes exactly the five references the HTML escaper emits and leaves
// the modelled kernel on any other '&' (the real function knows 2231 named
// references).
func HTMLUnescape(s string) string {
	if IndexByteString(s, '&') < 0 {
		return s
	}
	var out []byte
	for i := 0; i < len(s); {
		if s[i] != '&' {
			out = append(out, s[i])
			i++
			continue
		}
		rest := s[i:]
		switch {
		case HasPrefix(rest, "&#34;"):
			out = append(out, '"')
			i += 5
		case HasPrefix(rest, "&#39;"):
			out = append(out, '\'')
			i += 5
		case HasPrefix(rest, "&amp;"):
			out = append(out, '&')
			i += 5
		case HasPrefix(rest, "&lt;"):
			out = append(out, '<')
			i += 4
		case HasPrefix(rest, "&gt;"):
			out = append(out, '>')
			i += 4
		default:
			Unsupported("html.UnescapeString on a reference the HTML escaper does not emit")
		}
	}
	return string(out)
}

// ---- fmt: opaque formatting ----
//
// Formatting is not the subject of any property: Sprintf and friends return
// the format string (arguments are not rendered), Errorf an error carrying it.
// A property must not depend on message text.

type FmtError struct{ Msg string }

func (e *FmtError) Error() string { return e.Msg }

func Sprintf(format string, a ...any) string  { return format }
func Errorf(format string, a ...any) error    { return &FmtError{format} }
func Sprint(a ...any) string                  { return "<fmt.Sprint>" }
func Sprintln(a ...any) string                { return "<fmt.Sprintln>\n" }

// ---- errors.Is (the real one uses internal/reflectlite) ----

// IsComparable reports whether the dynamic type of v is comparable; it is
// answered by the engine from the static type information.
func IsComparable(v any) bool { return true }

func ErrorsIs(err, target error) bool {
	if err == nil || target == nil {
		return err == target
	}
	cmp := IsComparable(target)
	return errorsIs(err, target, cmp)
}

func errorsIs(err, target error, targetComparable bool) bool {
	for {
		if targetComparable && IsComparable(err) && err == target {
			return true
		}
		if x, ok := err.(interface{ Is(error) bool }); ok && x.Is(target) {
			return true
		}
		switch x := err.(type) {
		case interface{ Unwrap() error }:
			err = x.Unwrap()
			if err == nil {
				return false
			}
		case interface{ Unwrap() []error }:
			for _, e := range x.Unwrap() {
				if errorsIs(e, target, targetComparable) {
					return true
				}
			}
			return false
		default:
			return false
		}
	}
}
