// Package vmodels holds reference bodies, in plain Go, for functions the
// symbolic executor cannot run from their own source (assembly, unsafe,
// runtime internals). They are compiled to SSA and executed symbolically like
// any other code: they are code, not axioms.
package vmodels

// RuntimeError is the dynamic type of run-time panics raised by the engine
// (index out of range, nil dereference, divide by zero, ...). It implements
// runtime.Error.
type RuntimeError struct{ Msg string }

func (e RuntimeError) Error() string { return "runtime error: " + e.Msg }
func (e RuntimeError) RuntimeError() {}

// PlainRuntimeError is the dynamic type of the run-time panics whose message
// has no "runtime error: " prefix in gc (runtime.plainError): assignment to
// entry in nil map, close of nil/closed channel, send on closed channel.
type PlainRuntimeError struct{ Msg string }

func (e PlainRuntimeError) Error() string { return e.Msg }
func (e PlainRuntimeError) RuntimeError() {}

func IndexByte(b []byte, c byte) int {
	for i := 0; i < len(b); i++ {
		if b[i] == c {
			return i
		}
	}
	return -1
}

func IndexByteString(s string, c byte) int {
	for i := 0; i < len(s); i++ {
		if s[i] == c {
			return i
		}
	}
	return -1
}

func LastIndexByte(b []byte, c byte) int {
	for i := len(b) - 1; i >= 0; i-- {
		if b[i] == c {
			return i
		}
	}
	return -1
}

func LastIndexByteString(s string, c byte) int {
	for i := len(s) - 1; i >= 0; i-- {
		if s[i] == c {
			return i
		}
	}
	return -1
}

func Index(a, b []byte) int {
	n := len(b)
	for i := 0; i+n <= len(a); i++ {
		j := 0
		for j < n && a[i+j] == b[j] {
			j++
		}
		if j == n {
			return i
		}
	}
	return -1
}

func IndexString(a, b string) int {
	n := len(b)
	for i := 0; i+n <= len(a); i++ {
		j := 0
		for j < n && a[i+j] == b[j] {
			j++
		}
		if j == n {
			return i
		}
	}
	return -1
}

func LastIndexString(a, b string) int {
	n := len(b)
	for i := len(a) - n; i >= 0; i-- {
		j := 0
		for j < n && a[i+j] == b[j] {
			j++
		}
		if j == n {
			return i
		}
	}
	return -1
}

func Count(b []byte, c byte) int {
	n := 0
	for _, x := range b {
		if x == c {
			n++
		}
	}
	return n
}

func CountString(s string, c byte) int {
	n := 0
	for i := 0; i < len(s); i++ {
		if s[i] == c {
			n++
		}
	}
	return n
}

// CountStringAny models strings.Count(s, substr).
func CountStringAny(s, substr string) int {
	if len(substr) == 0 {
		n := 0
		for range s {
			n++
		}
		return n + 1
	}
	n := 0
	for {
		i := IndexString(s, substr)
		if i == -1 {
			return n
		}
		n++
		s = s[i+len(substr):]
	}
}

func Equal(a, b []byte) bool {
	if len(a) != len(b) {
		return false
	}
	for i := range a {
		if a[i] != b[i] {
			return false
		}
	}
	return true
}

func Compare(a, b []byte) int {
	n := len(a)
	if len(b) < n {
		n = len(b)
	}
	for i := 0; i < n; i++ {
		if a[i] != b[i] {
			if a[i] < b[i] {
				return -1
			}
			return 1
		}
	}
	if len(a) < len(b) {
		return -1
	}
	if len(a) > len(b) {
		return 1
	}
	return 0
}

func CompareString(a, b string) int {
	if a == b {
		return 0
	}
	if a < b {
		return -1
	}
	return 1
}

func HasPrefix(s, p string) bool { return len(s) >= len(p) && s[:len(p)] == p }
func HasSuffix(s, p string) bool { return len(s) >= len(p) && s[len(s)-len(p):] == p }
func CloneString(s string) string { return s }
func MakeNoZero(n int) []byte    { return make([]byte, n) }


// Unsupported ends the current path as "left the modelled kernel"; the engine
// intercepts it.
func Unsupported(msg string) { panic("verif: unsupported: " + msg) }

// HTMLUnescape models html.UnescapeString by porting its unescapeEntity. The
// numeric part is the real algorithm (references to U+0080..U+009F, which the
// real function maps through a Windows-1252 table, leave the kernel). Of the
// 2231 named references the model knows amp, lt, gt, quot (with and without
// semicolon, lower and upper case) and apos;; a name made only of digits is
// not a reference; any other name containing a letter leaves the kernel.
func HTMLUnescape(s string) string {
	if IndexByteString(s, '&') < 0 {
		return s
	}
	var out []byte
	for src := 0; src < len(s); {
		if s[src] != '&' {
			out = append(out, s[src])
			src++
			continue
		}
		t := s[src:]
		i := 1
		if len(t) <= 1 {
			out = append(out, '&')
			src++
			continue
		}
		if t[i] == '#' {
			if len(t) <= 3 {
				out = append(out, '&')
				src++
				continue
			}
			i++
			c := t[i]
			hex := false
			if c == 'x' || c == 'X' {
				hex = true
				i++
			}
			x := rune(0)
			for i < len(t) {
				c = t[i]
				i++
				if hex {
					if '0' <= c && c <= '9' {
						x = 16*x + rune(c) - '0'
						continue
					} else if 'a' <= c && c <= 'f' {
						x = 16*x + rune(c) - 'a' + 10
						continue
					} else if 'A' <= c && c <= 'F' {
						x = 16*x + rune(c) - 'A' + 10
						continue
					}
				} else if '0' <= c && c <= '9' {
					x = 10*x + rune(c) - '0'
					continue
				}
				if c != ';' {
					i--
				}
				break
			}
			if i <= 3 {
				out = append(out, '&')
				src++
				continue
			}
			if 0x80 <= x && x <= 0x9F {
				Unsupported("html.UnescapeString on a Windows-1252 numeric reference")
			} else if x == 0 || (0xD800 <= x && x <= 0xDFFF) || x > 0x10FFFF {
				x = 0xFFFD
			}
			switch {
			case x < 0x80:
				out = append(out, byte(x))
			case x < 0x800:
				out = append(out, byte(0xC0|x>>6), byte(0x80|x&0x3F))
			case x < 0x10000:
				out = append(out, byte(0xE0|x>>12), byte(0x80|(x>>6)&0x3F), byte(0x80|x&0x3F))
			default:
				out = append(out, byte(0xF0|x>>18), byte(0x80|(x>>12)&0x3F), byte(0x80|(x>>6)&0x3F), byte(0x80|x&0x3F))
			}
			src += i
			continue
		}
		// named reference: the longest run of letters and digits, and a semicolon
		letters := false
		for i < len(t) {
			c := t[i]
			i++
			if 'a' <= c && c <= 'z' || 'A' <= c && c <= 'Z' {
				letters = true
				continue
			}
			if '0' <= c && c <= '9' {
				continue
			}
			if c != ';' {
				i--
			}
			break
		}
		name := t[1:i]
		switch name {
		case "amp;", "AMP;", "amp", "AMP":
			out = append(out, '&')
			src += i
			continue
		case "lt;", "LT;", "lt", "LT":
			out = append(out, '<')
			src += i
			continue
		case "gt;", "GT;", "gt", "GT":
			out = append(out, '>')
			src += i
			continue
		case "quot;", "QUOT;", "quot", "QUOT":
			out = append(out, '"')
			src += i
			continue
		case "apos;":
			out = append(out, '\'')
			src += i
			continue
		}
		if letters {
			Unsupported("html.UnescapeString on a named reference outside the model")
		}
		// no letters: not a reference, copied unchanged
		out = append(out, t[:i]...)
		src += i
	}
	return string(out)
}

// ---- fmt: opaque formatting ----
//
// Formatting is not the subject of any property: Sprintf and friends return
// the format string (arguments are not rendered), Errorf an error carrying it.
// A property must not depend on message text.

type FmtError struct{ Msg string }

func (e *FmtError) Error() string { return e.Msg }

func Sprintf(format string, a ...any) string  { return format }
func Errorf(format string, a ...any) error    { return &FmtError{format} }
func Sprint(a ...any) string                  { return "<fmt.Sprint>" }
func Sprintln(a ...any) string                { return "<fmt.Sprintln>\n" }

// ---- errors.Is (the real one uses internal/reflectlite) ----

// IsComparable reports whether the dynamic type of v is comparable; it is
// answered by the engine from the static type information.
func IsComparable(v any) bool { return true }

func ErrorsIs(err, target error) bool {
	if err == nil || target == nil {
		return err == target
	}
	cmp := IsComparable(target)
	return errorsIs(err, target, cmp)
}

func errorsIs(err, target error, targetComparable bool) bool {
	for {
		if targetComparable && IsComparable(err) && err == target {
			return true
		}
		if x, ok := err.(interface{ Is(error) bool }); ok && x.Is(target) {
			return true
		}
		switch x := err.(type) {
		case interface{ Unwrap() error }:
			err = x.Unwrap()
			if err == nil {
				return false
			}
		case interface{ Unwrap() []error }:
			for _, e := range x.Unwrap() {
				if errorsIs(e, target, targetComparable) {
					return true
				}
			}
			return false
		default:
			return false
		}
	}
}
