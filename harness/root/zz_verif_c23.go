package scriggo

import (
	"errors"
	"io"
	"io/fs"
)

// C23: Files is a well-behaved io/fs file system. Trees of up to three files
// whose names have a fixed shape with symbolic letters; contents are symbolic.

func vletter() string {
	b := vsym_byte()
	vassume(b >= 'a' && b <= 'c')
	return string([]byte{b})
}

// vtree returns the files of one of the tree shapes.
var vnamesOf []string // names of the last tree, in insertion order

func vput(f Files, name string, data []byte) {
	f[name] = data
	vnamesOf = append(vnamesOf, name)
}

func vtree(shape int) Files {
	f := Files{}
	vnamesOf = nil
	// contents: symbolic bytes, lengths 1, 0, 2 for the first, second, third file
	// (the empty one is either an empty or a nil slice)
	data := func() []byte {
		n := []int{1, 0, 2}[len(vnamesOf)%3]
		if n == 0 && vsym_choice(2) == 1 {
			return nil
		}
		return []byte(vsym_nstring(n))
	}
	switch shape {
	case 0:
		vput(f, vletter(), data())
	case 1:
		a, b := vletter(), vletter()
		vassume(a != b)
		vput(f, a, data())
		vput(f, b, data())
	case 2:
		vput(f, vletter()+"/"+vletter(), data())
	case 3:
		d, a, b := vletter(), vletter(), vletter()
		vassume(a != b)
		vput(f, d+"/"+a, data())
		vput(f, d+"/"+b, data())
	case 4:
		d, a, b := vletter(), vletter(), vletter()
		vassume(d != b)
		vput(f, d+"/"+a, data())
		vput(f, b, data())
	case 5:
		vput(f, vletter()+"/"+vletter()+"/"+vletter(), data())
	case 6:
		d, e, a, b := vletter(), vletter(), vletter(), vletter()
		vassume(e != b)
		vput(f, d+"/"+e+"/"+a, data())
		vput(f, d+"/"+b, data())
	case 8:
		// a directory and a sibling file whose name extends the directory's name
		d, a := vletter(), vletter()
		x := vsym_byte()
		vassume(x >= 0x20 && x < 0x7f && x != '/')
		vput(f, d+"/"+a, data())
		vput(f, d+string([]byte{x}), data())
	case 7:
		d, a, e, b, c := vletter(), vletter(), vletter(), vletter(), vletter()
		vassume(d != e && d != c && e != c)
		vput(f, d+"/"+a, data())
		vput(f, e+"/"+b, data())
		vput(f, c, data())
	}
	return f
}

// vchildren is the reference listing of directory dir ("." for the root):
// sorted names of the direct children, and whether each is a directory.
func vchildren(f Files, dir string) (names []string, isDir []bool) {
	prefix := ""
	if dir != "." {
		prefix = dir + "/"
	}
	for _, name := range vnamesOf {
		if len(name) <= len(prefix) || name[:len(prefix)] != prefix {
			continue
		}
		rest := name[len(prefix):]
		child, d := rest, false
		for i := 0; i < len(rest); i++ {
			if rest[i] == '/' {
				child, d = rest[:i], true
				break
			}
		}
		dup := false
		for _, n := range names {
			if n == child {
				dup = true
			}
		}
		if dup {
			continue
		}
		// insert sorted
		pos := len(names)
		for i, n := range names {
			if child < n {
				pos = i
				break
			}
		}
		names = append(names, "")
		isDir = append(isDir, false)
		copy(names[pos+1:], names[pos:])
		copy(isDir[pos+1:], isDir[pos:])
		names[pos], isDir[pos] = child, d
	}
	return
}

func vdirs(f Files) []string {
	dirs := []string{"."}
	for _, name := range vnamesOf {
		for i := 0; i < len(name); i++ {
			if name[i] == '/' {
				d := name[:i]
				seen := false
				for _, x := range dirs {
					if x == d {
						seen = true
					}
				}
				if !seen {
					dirs = append(dirs, d)
				}
			}
		}
	}
	return dirs
}

func vbase(p string) string {
	for i := len(p) - 1; i >= 0; i-- {
		if p[i] == '/' {
			return p[i+1:]
		}
	}
	return p
}

func vcheckEntry(f Files, dir string, e fs.DirEntry, name string, isDir bool) {
	vassert(e.Name() == name, "entry-name-is-the-child-name")
	vassert(e.IsDir() == isDir, "entry-isdir")
	vassert(e.Type().IsDir() == isDir, "entry-type")
	info, err := e.Info()
	vassert(err == nil && info != nil, "entry-info")
	vassert(info.Name() == name && info.IsDir() == isDir && info.Mode().Type() == e.Type(), "entry-info-consistent")
	full := name
	if dir != "." {
		full = dir + "/" + name
	}
	if !isDir {
		vassert(info.Size() == int64(len(f[full])), "entry-size-is-file-size")
	}
	// the same as Open(child).Stat()
	file, err := f.Open(full)
	vassert(err == nil, "listed-child-opens")
	st, err := file.Stat()
	vassert(err == nil && st.IsDir() == isDir && st.Name() == name, "stat-agrees-with-entry")
}

func vc23_files(shape int) {
	f := vtree(shape)
	// files
	for _, name := range vnamesOf {
		data := f[name]
		file, err := f.Open(name)
		vassert(err == nil && file != nil, "file-opens")
		st, err := file.Stat()
		vassert(err == nil, "file-stat")
		vassert(st.Name() == vbase(name) && !st.IsDir() && st.Mode().IsRegular() && st.Size() == int64(len(data)), "file-info")
		buf := make([]byte, 3)
		n, err := file.Read(buf)
		if len(data) == 0 {
			vassert(n == 0 && err == io.EOF, "empty-file-eof")
		} else {
			vassert(err == nil && n == len(data) && string(buf[:n]) == string(data), "file-content")
			n, err = file.Read(buf)
			vassert(n == 0 && err == io.EOF, "eof-after-content")
		}
		vassert(file.Close() == nil, "close")
		_, err = file.Read(buf)
		vassert(err != nil && err != io.EOF, "read-after-close-fails")
		vassert(st.Name() == vbase(name) && st.Size() == int64(len(data)) && !st.IsDir(), "file-info-unchanged-by-read-and-close")
	}
	// directories
	for _, dir := range vdirs(f) {
		names, isDir := vchildren(f, dir)
		vopt_maporder(true)
		file, err := f.Open(dir)
		vopt_maporder(false)
		vassert(err == nil && file != nil, "directory-opens")
		st, err := file.Stat()
		vassert(err == nil && st.IsDir() && st.Mode().IsDir(), "directory-stat")
		rd, ok := file.(fs.ReadDirFile)
		vassert(ok, "directory-is-a-ReadDirFile")
		vopt_maporder(true) // every iteration order of the map inside the code under test
		all, err := rd.ReadDir(-1)
		vopt_maporder(false)
		vassert(err == nil && len(all) == len(names), "readdir-all-lists-each-child-once")
		for i := range all {
			vcheckEntry(f, dir, all[i], names[i], isDir[i])
		}
		again, err := rd.ReadDir(-1)
		vassert(err == nil && len(again) == 0, "readdir-all-after-end-is-empty")
		_, err = rd.ReadDir(1)
		vassert(err == io.EOF, "readdir-n-after-end-is-EOF")
	}
}

// a name that is neither a file nor an implied directory does not exist
func vc23_unknown(shape int) {
	f := vtree(shape)
	other := vsym_string(3)
	_, isFile := f[other]
	isD := false
	for _, d := range vdirs(f) {
		if d == other {
			isD = true
		}
	}
	if !isFile && !isD {
		vopt_maporder(true)
		_, err := f.Open(other)
		vopt_maporder(false)
		vassert(err != nil && errors.Is(err, fs.ErrNotExist), "unknown-name-is-not-exist")
	}
}

// pagination: ReadDir(k) with arbitrary positive k returns consecutive chunks
func vc23_paging(shape int) {
	f := vtree(shape)
	dir := "."
	names, isDir := vchildren(f, dir)
	file, _ := f.Open(dir)
	rd := file.(fs.ReadDirFile)
	pos := 0
	for step := 0; step < 4; step++ {
		k := vsym_int()
		vassume(k >= 1 && k <= 3)
		vopt_maporder(true)
		chunk, err := rd.ReadDir(k)
		vopt_maporder(false)
		if pos >= len(names) {
			vassert(len(chunk) == 0 && err == io.EOF, "EOF-at-end")
			break
		}
		vassert(err == nil && len(chunk) >= 1 && len(chunk) <= k, "chunk-size")
		want := len(names) - pos
		if want > k {
			want = k
		}
		vassert(len(chunk) == want, "chunk-is-as-large-as-possible")
		for i := range chunk {
			vcheckEntry(f, dir, chunk[i], names[pos+i], isDir[pos+i])
		}
		pos += len(chunk)
	}
	// the rest with -1
	rest, err := rd.ReadDir(-1)
	vassert(err == nil && len(rest) == len(names)-pos, "readdir-all-returns-the-remaining-entries")
}

func vh_c23_files_q()   { vc23_files(vsym_choice(5)) }
func vh_c23_prefix_q()  { vc23_files(8) }
func vh_c23_prefixp_q() { vc23_paging(8) }
func vh_c23_paging_q()  { vc23_paging(1 + vsym_choice(4)) }
func vh_c23_unknown_q() { vc23_unknown(vsym_choice(5)) }
func vh_c23_files_t()   { vc23_files(5 + vsym_choice(3)) }
func vh_c23_paging_t()  { vc23_paging(5 + vsym_choice(3)) }
func vh_c23_unknown_t() { vc23_unknown(5 + vsym_choice(3)) }
