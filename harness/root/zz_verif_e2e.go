package scriggo

import (
	"errors"

	"github.com/open2b/scriggo/native"
)

// More end-to-end harnesses: the template is built by BuildTemplate and run
// by Template.Run, i.e. through the real lexer, parser, checker, emitter, VM
// and renderer.

var vErrE2E = errors.New("verif: writer failed")

type vfailWriter struct {
	b      []byte
	writes int
	failAt int
	after  int
}

func (w *vfailWriter) Write(p []byte) (int, error) {
	w.writes++
	if w.failAt > 0 && w.writes >= w.failAt {
		if w.writes > w.failAt {
			w.after++
		}
		return 0, vErrE2E
	}
	w.b = append(w.b, p...)
	return len(p), nil
}

// C13: the writer fails on its k-th write: Run returns that very error and
// writes nothing more.
func vc13_e2e() {
	s := vsym_string(2)
	srcs := []string{"a{{ s }}b{{ s }}c", "<p>{{ s }}</p><a href=\"{{ s }}\">", "{% if s != \"\" %}x{{ s }}{% end %}y"}
	i := vsym_choice(len(srcs))
	file := "index.txt"
	if i == 1 {
		file = "index.html"
	}
	opts := &BuildOptions{Globals: native.Declarations{"s": &s}}
	tmpl, err := BuildTemplate(Files{file: []byte(srcs[i])}, file, opts)
	vassert(err == nil, "builds")
	var w0 vfailWriter
	vassert(tmpl.Run(&w0, nil, nil) == nil, "runs-without-failure")
	total := w0.writes
	k := 1 + vsym_choice(total+1)
	w1 := vfailWriter{failAt: k}
	err = tmpl.Run(&w1, nil, nil)
	if k <= total {
		vassert(err == vErrE2E, "run-returns-the-writer-error-itself")
		vassert(w1.after == 0, "no-write-after-the-failing-one")
		vassert(len(w1.b) <= len(w0.b) && string(w1.b) == string(w0.b[:len(w1.b)]), "prefix-of-full-output")
	} else {
		vassert(err == nil && string(w1.b) == string(w0.b), "same-output")
	}
	vreach("end")
}

// C15: text around a show is emitted verbatim (text format: no escaping)
func vc15_e2e(n int) {
	t1, t2 := vsym_bytes(n), vsym_bytes(n)
	for _, c := range t1 {
		vassume(c != '{' && c != '}' && c != '#' && c != '%')
	}
	for _, c := range t2 {
		vassume(c != '{' && c != '}' && c != '#' && c != '%')
	}
	s := vsym_string(1)
	var src []byte
	src = append(src, t1...)
	src = append(src, "{{ s }}"...)
	src = append(src, t2...)
	opts := &BuildOptions{Globals: native.Declarations{"s": &s}}
	tmpl, err := BuildTemplate(Files{"index.txt": src}, "index.txt", opts)
	vassert(err == nil, "builds")
	var out vbuf
	vassert(tmpl.Run(&out, nil, nil) == nil, "runs")
	want := string(t1) + s + string(t2)
	vassert(string(out.b) == want, "text-verbatim-around-the-show")
	vreach("end")
}

// C05: whatever builds also runs without a host panic (Run returns nil or a
// *PanicError); two int globals combined by an operator spelled with
// arbitrary bytes, and a shift by a variable count
func vc05_e2e(prefix, suffix string, n int) {
	a, b := int(vsym_i64()), int(vsym_i64())
	sym := vsym_bytes(n)
	src := append(append([]byte(prefix), sym...), suffix...)
	opts := &BuildOptions{Globals: native.Declarations{"a": &a, "b": &b}}
	tmpl, err := BuildTemplate(Files{"index.txt": src}, "index.txt", opts)
	if err != nil {
		_, ok := err.(*BuildError)
		vassert(ok, "error-is-a-BuildError")
		vreach("rejected")
		return
	}
	var out vbuf
	err = tmpl.Run(&out, nil, nil)
	if err != nil {
		_, ok := err.(*PanicError)
		vassert(ok, "run-error-is-a-PanicError")
		vreach("run-error")
	}
	vreach("ran")
}

// C12: an unrecovered panic is a *PanicError carrying the value, the path and
// the position of the panic statement
func vc12_e2e() {
	s := vsym_string(1)
	lead := []string{"", "\n", "ab\n  "}[vsym_choice(3)]
	src := lead + "{% panic(s) %}"
	opts := &BuildOptions{Globals: native.Declarations{"s": &s}}
	tmpl, err := BuildTemplate(Files{"index.txt": []byte(src)}, "index.txt", opts)
	vassert(err == nil, "builds")
	var out vbuf
	err = tmpl.Run(&out, nil, nil)
	pe, ok := err.(*PanicError)
	vassert(ok, "unrecovered-panic-is-a-PanicError")
	m, isStr := pe.Message().(string)
	vassert(isStr && m == s, "message-is-the-panic-value")
	vassert(pe.Next() == nil && !pe.Recovered(), "single-unrecovered-panic")
	vassert(pe.Path() == "index.txt", "path-of-the-panicking-file")
	// the position is that of the panic call: on the statement's line, inside "panic("
	line, start := 1, 1
	switch lead {
	case "\n":
		line = 2
	case "ab\n  ":
		line, start = 2, 3
	}
	pos := pe.Position()
	vassert(pos.Line == line, "line-of-the-panic-call")
	vassert(start+3 <= pos.Column && pos.Column <= start+3+len("panic"), "column-inside-the-panic-call")
	vreach("end")
}

func vh_c13_e2e_q()      { vc13_e2e() }
func vh_c15_e2e_q()      { vc15_e2e(2) }
func vh_c15_e2e_t()      { vc15_e2e(2) }
func vh_c05_e2e_op_q()   { vc05_e2e("{% if a ", " b %}T{% end %}", 1) }
func vh_c05_e2e_op2_q()  { vc05_e2e("{% c := a ", " b %}{% if c == a %}T{% end %}", 2) }
func vh_c05_e2e_div_q()  { vc05_e2e("{% c := a / (b ", " 3) %}{% if c == a %}T{% end %}", 1) }
func vh_c12_e2e_q()      { vc12_e2e() }
