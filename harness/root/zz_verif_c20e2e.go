package scriggo

// C20 (end to end): programs sized just below, at and above an implementation
// limit either build and print what gc prints, or fail with a *BuildError
// saying that a limit was exceeded; Build never panics and never produces
// code that prints something else.

func vitoa(n int) string {
	if n == 0 {
		return "0"
	}
	var b []byte
	for n > 0 {
		b = append([]byte{byte('0' + n%10)}, b...)
		n /= 10
	}
	return string(b)
}

// vc20_prog returns a program of the given kind and size, and what it prints.
func vc20_prog(kind, n int) (string, int) {
	var b []byte
	add := func(s string) { b = append(b, s...) }
	add("package main\n\n")
	switch kind {
	case 0: // n package-level int variables
		for i := 0; i < n; i++ {
			add("var v" + vitoa(i) + " = " + vitoa(1000+i) + "\n")
		}
		add("func main() { print(v" + vitoa(n-1) + ") }\n")
		return string(b), 1000 + n - 1
	case 1: // n local int variables, all live
		add("func main() {\n")
		for i := 0; i < n; i++ {
			add("\ta" + vitoa(i) + " := " + vitoa(i) + "\n")
		}
		add("\ts := 0\n")
		for i := 0; i < n; i++ {
			add("\t{ s += a" + vitoa(i) + " }\n")
		}
		add("\tprint(s)\n}\n")
		return string(b), n * (n - 1) / 2
	case 2: // n distinct string constants in one function
		add("func main() {\n\ts := 0\n\tt := \"\"\n")
		for i := 0; i < n; i++ {
			add("\t{ t = \"c" + vitoa(i) + "\"; s += len(t) }\n")
		}
		add("\tprint(s)\n}\n")
		sum := 0
		for i := 0; i < n; i++ {
			sum += 1 + len(vitoa(i))
		}
		return string(b), sum
	case 3: // n functions called by main
		for i := 0; i < n; i++ {
			add("func f" + vitoa(i) + "() int { return " + vitoa(i) + " }\n")
		}
		add("func main() {\n\ts := 0\n")
		for i := 0; i < n; i++ {
			add("\t{ s += f" + vitoa(i) + "() }\n")
		}
		add("\tprint(s)\n}\n")
		return string(b), n * (n - 1) / 2
	case 4: // n distinct array types in one function
		add("func main() {\n\ts := 0\n")
		for i := 0; i < n; i++ {
			add("\t{ var x" + vitoa(i) + " [" + vitoa(i+1) + "]int8; s += len(x" + vitoa(i) + ") }\n")
		}
		add("\tprint(s)\n}\n")
		return string(b), n * (n + 1) / 2
	case 5: // a struct with n fields, each one assigned and read
		add("type T struct {\n")
		for i := 0; i < n; i++ {
			add("\tF" + vitoa(i) + " int\n")
		}
		add("}\nfunc main() {\n\tvar t T\n\ts := 0\n")
		for i := 0; i < n; i++ {
			add("\t{ t.F" + vitoa(i) + " = " + vitoa(i) + "; s += t.F" + vitoa(i) + " }\n")
		}
		add("\tprint(s)\n}\n")
		return string(b), n * (n - 1) / 2
	case 6: // one call of a variadic function with n arguments
		add("func sum(xs ...int) int {\n\ts := 0\n\tfor _, x := range xs {\n\t\ts += x\n\t}\n\treturn s + len(xs)\n}\n")
		add("func main() {\n\tprint(sum(")
		for i := 0; i < n; i++ {
			if i > 0 {
				add(", ")
			}
			add(vitoa(i))
		}
		add("))\n}\n")
		return string(b), n*(n-1)/2 + n
	case 7: // n live locals, then appends of one, two and three of them: the
		// temporaries of the append are the function's highest registers
		add("func main() {\n\ts := []int{}\n\tt := 0\n")
		for i := 0; i < n; i++ {
			add("\ta" + vitoa(i) + " := " + vitoa(i) + "\n")
		}
		add("\ts = append(s, a1)\n\ts = append(s, a2, a3)\n\ts = append(s, a4, a5, a6)\n")
		for i := 0; i < n; i++ {
			add("\t{ t += a" + vitoa(i) + " }\n")
		}
		add("\t{ t += s[0] }\n\t{ t += s[2] }\n\t{ t += s[5] }\n\t{ t += len(s) }\n\tprint(t)\n}\n")
		return string(b), n*(n-1)/2 + 1 + 3 + 6 + 6
	}
	return "", 0
}

func vc20_e2e(kind int, sizes []int) {
	vopt_budget(60000000)
	n := sizes[vsym_choice(len(sizes))]
	src, want := vc20_prog(kind, n)
	program, err := Build(Files{"main.go": []byte(src)}, nil)
	if err != nil {
		be, ok := err.(*BuildError)
		vassert(ok, "error-is-a-BuildError")
		msg := be.Message()
		found := false
		for i := 0; i+len("count exceeded") <= len(msg); i++ {
			if msg[i:i+len("count exceeded")] == "count exceeded" {
				found = true
			}
		}
		vassert(found, "build-error-is-limit-exceeded")
		vreach("limit")
		return
	}
	var got []any
	err = program.Run(&RunOptions{Print: func(v any) { got = append(got, v) }})
	vassert(err == nil, "runs")
	vassert(len(got) == 1, "prints-once")
	x, ok := got[0].(int)
	vassert(ok && x == want, "program-near-the-limit-prints-what-gc-prints")
	vreach("built")
}

func vh_c20_e2e_pkgvars_q() { vc20_e2e(0, []int{100, 120, 124, 125, 126, 127, 128, 129}) }
func vh_c20_e2e_locals_q()  { vc20_e2e(1, []int{60, 120, 124, 125, 126, 127, 128, 129}) }
func vh_c20_e2e_strings_q() { vc20_e2e(2, []int{254, 255, 256, 257, 258}) }
func vh_c20_e2e_funcs_q()   { vc20_e2e(3, []int{254, 255, 256, 257, 258}) }
func vh_c20_e2e_types_q()   { vc20_e2e(4, []int{250, 253, 254, 255, 256, 257, 258}) }
func vh_c20_e2e_fields_q()  { vc20_e2e(5, []int{254, 255, 256, 257, 258}) }
func vh_c20_e2e_variadic_q() {
	vc20_e2e(6, []int{1, 60, 61, 62, 63, 64, 65, 100, 126, 127, 128, 129, 200, 255, 256, 257})
}
func vh_c20_e2e_append_q() {
	var sizes []int
	for n := 100; n <= 127; n++ {
		sizes = append(sizes, n)
	}
	vc20_e2e(7, sizes)
}
