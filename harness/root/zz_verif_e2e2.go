package scriggo

import (
	"errors"
	"io"
	"reflect"

	"github.com/open2b/scriggo/native"
)

// End-to-end harnesses that need native calls through reflect.Value.Call,
// deferred calls, and slices/maps held in general registers.

var vErrStopE2E = errors.New("verif: stopped")

type vfatalT struct{ code int }

func vrunRecover(t *Template, w io.Writer) (err error, rec any) {
	defer func() { rec = recover() }()
	err = t.Run(w, nil, nil)
	return
}

// C12: Stop and Fatal called by native code, at top level, under a pending
// panic (from a deferred call) and after a recover: Run returns the Stop
// error itself / panics with the Fatal value, and no interpreted code
// (deferred calls included) runs afterwards.
func vc12_e2e_stop() {
	s := vsym_string(1)
	var trace []byte
	decls := native.Declarations{
		"s":     &s,
		"stop":  func(env native.Env) { env.Stop(vErrStopE2E) },
		"fatal": func(env native.Env) { env.Fatal(vfatalT{42}) },
		"mark":  func(c int) { trace = append(trace, byte(c)) },
	}
	srcs := []struct {
		src   string
		fatal bool
		out   string
		trace string
	}{
		{"a{% stop() %}b", false, "a", ""},
		{"{% macro F %}z{% end %}a{% defer F() %}b{% stop() %}c", false, "ab", ""},
		{"a{% defer mark(1) %}{% defer stop() %}{% defer mark(2) %}b{% panic(s) %}c", false, "ab", "\x02"},
		{"a{% defer func() { recover(); mark(3); stop() }() %}b{% panic(s) %}", false, "ab", "\x03"},
		{"a{% fatal() %}b", true, "a", ""},
		{"a{% defer mark(1) %}{% defer fatal() %}b{% panic(s) %}c", true, "ab", ""},
	}
	c := srcs[vsym_choice(len(srcs))]
	tmpl, err := BuildTemplate(Files{"index.txt": []byte(c.src)}, "index.txt", &BuildOptions{Globals: decls})
	vassert(err == nil, "builds")
	var out vbuf
	err, rec := vrunRecover(tmpl, &out)
	if c.fatal {
		fv, ok := rec.(vfatalT)
		vassert(ok && fv.code == 42, "fatal-panics-with-the-value")
	} else {
		vassert(rec == nil, "stop-does-not-panic")
		vassert(err == vErrStopE2E, "run-returns-the-stop-error-itself")
	}
	vassert(string(out.b) == c.out, "no-interpreted-code-after-stop-or-fatal")
	vassert(string(trace) == c.trace, "no-deferred-call-after-stop-or-fatal")
	vreach("end")
}

// C13: a deferred macro writes after the failing write (the writer keeps
// failing): Run still returns the writer's error and no byte is accepted
// after the failure.
func vc13_e2e_defer() {
	s := vsym_string(1)
	srcs := []string{
		"{% macro F %}z{% end %}{% defer F() %}a{{ s }}b",
		"{% macro F %}z{% end %}{% defer F() %}a{% panic(s) %}",
	}
	i := vsym_choice(len(srcs))
	opts := &BuildOptions{Globals: native.Declarations{"s": &s}}
	tmpl, err := BuildTemplate(Files{"index.txt": []byte(srcs[i])}, "index.txt", opts)
	vassert(err == nil, "builds")
	var w0 vfailWriter
	_ = tmpl.Run(&w0, nil, nil)
	total := w0.writes
	vassume(total > 0)
	k := 1 + vsym_choice(total)
	w1 := vfailWriter{failAt: k}
	err, rec := vrunRecover(tmpl, &w1)
	vassert(rec == nil, "no-host-panic")
	vassert(err == vErrE2E, "run-returns-the-writer-error-itself")
	vassert(len(w1.b) <= len(w0.b) && string(w1.b) == string(w0.b[:len(w1.b)]), "prefix-of-full-output")
	vreach("end")
}

// C01/C05: slices of a type without a fast path (general registers, reflect):
// slicing, indexing and append agree with Go, faults are *PanicError values
// with Go's message.
func vc01_e2e_slice() {
	sl := []int16{1, 2, 3}
	a, b := int(vsym_i64()), int(vsym_i64())
	decls := native.Declarations{"sl": &sl, "a": &a, "b": &b}
	which := vsym_choice(3)
	var src string
	switch which {
	case 0:
		src = "{% x := sl[a:b] %}{{ len(x) }}|{{ cap(x) }}"
	case 1:
		src = "{{ sl[a] }}"
	case 2:
		src = "{% u := sl[:a] %}{% t := append(u, 9) %}{{ sl[a] }}|{{ cap(t) }}|{{ len(t) }}"
	}
	tmpl, err := BuildTemplate(Files{"index.txt": []byte(src)}, "index.txt", &BuildOptions{Globals: decls})
	vassert(err == nil, "builds")
	var out vbuf
	err, rec := vrunRecover(tmpl, &out)
	vassert(rec == nil, "no-host-panic")
	digits := "0123456789"
	switch which {
	case 0:
		if 0 <= a && a <= b && b <= 3 {
			vassert(err == nil, "valid-slice-expression-runs")
			want := digits[b-a:b-a+1] + "|" + digits[3-a:3-a+1]
			vassert(string(out.b) == want, "len-and-cap-of-slice-expression")
		} else {
			pe, ok := err.(*PanicError)
			vassert(ok, "bad-slice-bounds-is-a-PanicError")
			_, isErr := pe.Message().(error)
			vassert(isErr, "bad-slice-bounds-is-a-runtime-error")
		}
	case 1:
		if 0 <= a && a < 3 {
			vassert(err == nil && string(out.b) == digits[a+1:a+2], "element-value")
		} else {
			pe, ok := err.(*PanicError)
			vassert(ok, "bad-index-is-a-PanicError")
			_, isErr := pe.Message().(error)
			vassert(isErr, "bad-index-is-a-runtime-error")
		}
	case 2:
		if 0 <= a && a < 3 {
			vassert(err == nil, "append-within-capacity-runs")
			want := "9|3|" + digits[a+1:a+2]
			vassert(string(out.b) == want, "append-within-capacity-aliases-the-base-slice")
		}
	}
	vreach("end")
}

func vh_c12_e2e_stop_q()  { vc12_e2e_stop() }
func vh_c13_e2e_defer_q() { vc13_e2e_defer() }
func vh_c01_e2e_slice_q() { vc01_e2e_slice() }
func vh_c05_e2e_slice_q() { vc01_e2e_slice() }

// C05: run-time faults of every kind the statement lists, raised by tiny
// templates on symbolic operands, come back from Run as *PanicError values
// (or nil when the operands make the operation valid), never as a host panic.
var vc05Faults = []string{
	"{% var m map[string]int %}{% m[s] = a %}",
	"{% var m map[string]int %}{{ m[s] }}{% delete(m, s) %}",
	"{% var i interface{} = a %}{% if b > 0 %}{% i = s %}{% end %}{{ i.(string) }}",
	"{% var p *int %}{% if b > 0 %}{% p = &a %}{% end %}{{ *p }}",
	"{% m := map[interface{}]int{} %}{% var k interface{} = a %}{% if b > 0 %}{% k = sl %}{% end %}{% m[k] = 1 %}",
	"{% var f func() int %}{% if b > 0 %}{% f = func() int { return a } %}{% end %}{{ f() }}",
	"{% ch := make(chan int, 1) %}{% close(ch) %}{% if b > 0 %}{% close(ch) %}{% end %}",
	"{% ch := make(chan int, 1) %}{% if b > 0 %}{% close(ch) %}{% end %}{% ch <- a %}",
	"{% var ch chan int %}{% if b > 0 %}{% close(ch) %}{% end %}",
	"{% x := sl[a:b:3] %}{{ len(x) }}",
	"{% x := sl[1:a:b] %}{{ len(x) }}",
	"{% arr := [3]int8{1, 2, 3} %}{{ arr[a] }}",
	"{% x := make([]int16, a) %}{{ len(x) }}",
	"{% x := make([]int16, 1, a) %}{{ len(x) }}",
	"{% x := make([]string, a, b) %}{{ len(x) }}",
	"{{ s[a] }}",
	"{{ s[a:b] }}",
	"{{ s[a:] }}{{ s[:b] }}",
	"{% var i interface{} = a %}{% if b > 0 %}{% i = int8(a) %}{% end %}{{ i.(int) + 1 }}",
	"{% c := a / b %}{% d := a % b %}{% if c == d %}T{% end %}",
	"{% var i8 int8 = int8(a) %}{% var j8 int8 = int8(b) %}{% c := i8 / j8 %}{% d := i8 % j8 %}{% if c == d %}T{% end %}",
	"{% var u8 uint8 = uint8(a) %}{% var v8 uint8 = uint8(b) %}{% c := u8 / v8 %}{% d := u8 % v8 %}{% if c == d %}T{% end %}",
	"{% var i interface{} = sl %}{% var j interface{} = sl %}{% if b > 0 %}{{ i == j }}{% end %}",
	"{% sl[a] = int16(b) %}{{ sl[a] }}",
	"{% x := append(sl[:a], sl[b:]...) %}{{ len(x) }}",
	"{% n := copy(sl[a:], sl[:b]) %}{{ n }}",
	"{% m := map[string][]int16{\"k\": sl} %}{{ m[s][a] }}",
	"{% var ps *[]int16 %}{% if b > 0 %}{% ps = &sl %}{% end %}{{ (*ps)[a] }}",
	// native struct types with unexported fields, directly and through defined types
	"{% x := U{a, s} %}{{ x.A }}",
	"{% x := U{A: a} %}{{ x.A }}",
	"{% type P U %}{% x := P{a, s} %}{{ x.A }}",
	"{% type P U %}{% x := P{A: a} %}{{ x.A }}{% x.A = b %}{{ x.A }}",
	"{% type P T %}{% x := P{s} %}{% if x == x %}T{% end %}",
	"{% type P struct{ U } %}{% x := P{U{A: a}} %}{{ x.A }}",
	"{% type P struct{ A int; b string } %}{% type Q P %}{% x := Q{a, s} %}{{ x.A }}{{ x.b }}",
	"{% type P []U %}{% x := P{{A: a}, {A: b}} %}{{ x[1].A }}",
	"{% var x U %}{% y := &x %}{% y.A = a %}{{ x.A }}",
	// compound assignment and ++ on elements (OpIndex), with a bad index
	"{% sl[a] += 2 %}{% if sl[0] == 1 %}T{% end %}",
	"{% sl[a]++ %}",
	"{% ss := []string{\"x\"} %}{% ss[a] += s %}",
	"{% arr := [3]int8{1, 2, 3} %}{% arr[a] *= 2 %}{% arr[b]-- %}",
	"{% m := map[string][]int16{\"k\": sl} %}{% m[\"k\"][a] -= 1 %}",
	// a map key of interface type holding an unhashable value, in every map operation
	"{% m := map[interface{}]int{} %}{% var k interface{} = a %}{% if b > 0 %}{% k = sl %}{% end %}{% x := m[k] %}{% if x == a %}T{% end %}",
	"{% m := map[interface{}]int{} %}{% var k interface{} = a %}{% if b > 0 %}{% k = sl %}{% end %}{% _, ok := m[k] %}{% if ok %}T{% end %}",
	"{% m := map[interface{}]int{} %}{% var k interface{} = a %}{% if b > 0 %}{% k = sl %}{% end %}{% m[k]++ %}",
	"{% m := map[interface{}]int{1: 2} %}{% var k interface{} = a %}{% if b > 0 %}{% k = sl %}{% end %}{% if m contains k %}T{% end %}",
	"{% m := map[interface{}]int{1: 2} %}{% var k interface{} = a %}{% if b > 0 %}{% k = sl %}{% end %}{% delete(m, k) %}",
	"{% var k interface{} = a %}{% if b > 0 %}{% k = sl %}{% end %}{% m := map[interface{}]int{k: 1} %}{% if len(m) == 1 %}T{% end %}",
	"{% var x interface{} = a %}{% var y interface{} = a %}{% if b > 0 %}{% x = sl %}{% y = sl %}{% end %}{% switch x %}{% case y %}T{% end %}",
}

type v5T struct{ s string }
type v5U struct {
	A int
	b string
}

func vc05_e2e_faults(lo, hi int, small bool) {
	which := lo + vsym_choice(hi-lo)
	sl := []int16{1, 2, 3}
	a, b := int(vsym_i64()), int(vsym_i64())
	if small {
		vassume(-2 <= a && a <= 5 && -2 <= b && b <= 5)
	}
	s := vsym_string(2)
	decls := native.Declarations{"sl": &sl, "a": &a, "b": &b, "s": &s, "T": reflect.TypeOf(v5T{}), "U": reflect.TypeOf(v5U{})}
	tmpl, err := BuildTemplate(Files{"index.txt": []byte(vc05Faults[which])}, "index.txt", &BuildOptions{Globals: decls})
	if which >= 28 && err != nil {
		_, ok := err.(*BuildError)
		vassert(ok, "error-is-a-BuildError")
		vreach("rejected")
		return
	}
	vassert(err == nil, "builds")
	var out vbuf
	err, rec := vrunRecover(tmpl, &out)
	vassert(rec == nil, "no-host-panic")
	if err != nil {
		_, ok := err.(*PanicError)
		vassert(ok, "run-error-is-a-PanicError")
		vreach("fault")
	} else {
		vreach("ran")
	}
}

func vh_c05_e2e_faults1_q()  { vc05_e2e_faults(0, 10, false) }
func vh_c05_e2e_faults2_q()  { vc05_e2e_faults(10, 20, false) }
func vh_c05_e2e_faults3_q()  { vc05_e2e_faults(20, 28, false) }
func vh_c05_e2e_faults4s_q() { vc05_e2e_faults(28, 37, true) }
func vh_c05_e2e_faults5s_q() { vc05_e2e_faults(37, 42, true) }
func vh_c05_e2e_faults6s_q() { vc05_e2e_faults(42, len(vc05Faults), true) }
func vh_c05_e2e_faults1s_q() { vc05_e2e_faults(0, 10, true) }
func vh_c05_e2e_faults2s_q() { vc05_e2e_faults(10, 20, true) }
func vh_c05_e2e_faults3s_q() { vc05_e2e_faults(20, 28, true) }


// C13: a rendered Markdown file is converted at the return of its macro, the
// converter writes to the template output: a failure of that write is
// returned by Run like every other write failure.
func vc13_e2e_md() {
	s := vsym_string(1)
	conv := func(src []byte, out io.Writer) error {
		_, err := out.Write(src)
		return err
	}
	fsys := Files{"index.html": []byte("a{{ render \"x.md\" }}b{{ s }}"), "x.md": []byte("# t{{ s }}")}
	opts := &BuildOptions{Globals: native.Declarations{"s": &s}, MarkdownConverter: conv}
	tmpl, err := BuildTemplate(fsys, "index.html", opts)
	vassert(err == nil, "builds")
	var w0 vfailWriter
	vassert(tmpl.Run(&w0, nil, nil) == nil, "runs-without-failure")
	total := w0.writes
	vassume(total > 0)
	k := 1 + vsym_choice(total)
	w1 := vfailWriter{failAt: k}
	err, rec := vrunRecover(tmpl, &w1)
	vassert(rec == nil, "no-host-panic")
	vassert(err == vErrE2E, "run-returns-the-writer-error-itself")
	vassert(w1.after == 0, "no-write-after-the-failing-one")
	vreach("end")
}

func vh_c13_e2e_md_q() { vc13_e2e_md() }

// C12: chains of panics. A panic raised while another is in flight aborts it;
// recover stops the current one and marks it; the *PanicError that Run
// returns lists exactly the panics still active, innermost first, with their
// recovered flags. Expected results are Go's semantics for each template.
func vc12_e2e_chain() {
	s, t, u := vsym_string(1), vsym_string(1), vsym_string(1)
	var trace []byte
	decls := native.Declarations{
		"s": &s, "t": &t, "u": &u,
		"mark": func(c int) { trace = append(trace, byte('0'+c)) },
	}
	type link struct {
		msg       *string
		recovered bool
	}
	cases := []struct {
		src   string
		chain []link // nil: Run returns nil
		out   string
		trace string
	}{
		// recover in a deferred function that has itself deferred a call
		{"{% defer func() { defer mark(1); recover() }() %}a{% panic(s) %}b", nil, "a", "1"},
		// the second panic aborts the first, the recover stops the second
		{"{% defer func() { recover(); mark(2) }() %}{% defer func() { panic(t) }() %}a{% panic(s) %}b", nil, "a", "2"},
		// two unrecovered panics
		{"{% defer func() { panic(t) }() %}a{% panic(s) %}b", []link{{&t, false}, {&s, false}}, "a", ""},
		// recovered, then a new panic
		{"{% defer func() { recover(); panic(t) }() %}a{% panic(s) %}b", []link{{&t, false}, {&s, true}}, "a", ""},
		// everything recovered inside a macro, then an unrelated panic
		{"{% macro M %}{% defer func() { recover() }() %}{% defer func() { panic(t) }() %}x{% panic(s) %}y{% end %}a{{ M() }}b{% panic(u) %}c", []link{{&u, false}}, "axb", ""},
		// nested: the inner function recovers its own panic while the outer one is in flight
		{"{% defer func() { defer func() { recover() }(); panic(t) }() %}a{% panic(s) %}b", []link{{&s, false}}, "a", ""},
		// recover with nothing to recover, then a panic
		{"{% defer mark(3) %}{% recover() %}a{% panic(s) %}b", []link{{&s, false}}, "a", "3"},
	}
	c := cases[vsym_choice(len(cases))]
	tmpl, err := BuildTemplate(Files{"index.txt": []byte(c.src)}, "index.txt", &BuildOptions{Globals: decls})
	vassert(err == nil, "builds")
	var out vbuf
	err, rec := vrunRecover(tmpl, &out)
	vassert(rec == nil, "no-host-panic")
	if c.chain == nil {
		vassert(err == nil, "recovered-panic-run-returns-nil")
	} else {
		pe, ok := err.(*PanicError)
		vassert(ok, "unrecovered-panic-is-a-PanicError")
		for _, l := range c.chain {
			vassert(pe != nil, "chain-has-every-active-panic")
			m, isStr := pe.Message().(string)
			vassert(isStr && m == *l.msg, "chain-message-in-order")
			vassert(pe.Recovered() == l.recovered, "chain-recovered-flag")
			pe = pe.Next()
		}
		vassert(pe == nil, "chain-has-no-aborted-panic")
	}
	vassert(string(out.b) == c.out, "output-stops-at-the-panic")
	vassert(string(trace) == c.trace, "deferred-calls-run-once-in-order")
	vreach("end")
}

func vh_c12_e2e_chain_q() { vc12_e2e_chain() }
