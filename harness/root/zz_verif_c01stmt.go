package scriggo

import "github.com/open2b/scriggo/native"

// C01 (end to end, statements): small template programs over symbolic ints a,
// b and a string s exercise control flow, closures, defer, composite values
// and conversions; each one ends by comparing its result with the value r (or
// the string rs) that the same Go code computes in the harness.

type vstmtCase struct {
	src string
	ref func(a, b int, s string) (int, string)
}

var vstmtCases = []vstmtCase{
	// expression switch with conditions, fallthrough and default
	{"{% x := 0 %}{% switch %}{% case a < b %}{% x = 1 %}{% fallthrough %}{% case a == b %}{% x += 2 %}{% default %}{% x = 7 %}{% end %}{% if x == r %}T{% end %}", func(a, b int, s string) (int, string) {
		x := 0
		switch {
		case a < b:
			x = 1
			fallthrough
		case a == b:
			x += 2
		default:
			x = 7
		}
		return x, ""
	}},
	// switch on a value with a list and a variable case
	{"{% x := 0 %}{% switch a %}{% case 1, 2 %}{% x = 1 %}{% case b %}{% x = 2 %}{% default %}{% x = 3 %}{% end %}{% if x == r %}T{% end %}", func(a, b int, s string) (int, string) {
		x := 0
		switch a {
		case 1, 2:
			x = 1
		case b:
			x = 2
		default:
			x = 3
		}
		return x, ""
	}},
	// for with continue and break
	{"{% x := 0 %}{% for i := 0; i < 6; i++ %}{% if i == a %}{% continue %}{% end %}{% if i == b %}{% break %}{% end %}{% x = x*10 + i + 1 %}{% end %}{% if x == r %}T{% end %}", func(a, b int, s string) (int, string) {
		x := 0
		for i := 0; i < 6; i++ {
			if i == a {
				continue
			}
			if i == b {
				break
			}
			x = x*10 + i + 1
		}
		return x, ""
	}},
	// continue and break in a for nested in a for range, and the other way round
	{"{% x := 0 %}{% for _, y := range []int{1, 2} %}{% for i := 0; i < 3; i++ %}{% if i == a %}{% continue %}{% end %}{% if i == b %}{% break %}{% end %}{% x = x*5 + i + y %}{% end %}{% x++ %}{% end %}{% if x == r %}T{% end %}", func(a, b int, s string) (int, string) {
		x := 0
		for _, y := range []int{1, 2} {
			for i := 0; i < 3; i++ {
				if i == a {
					continue
				}
				if i == b {
					break
				}
				x = x*5 + i + y
			}
			x++
		}
		return x, ""
	}},
	{"{% x := 0 %}{% for i := 0; i < 2; i++ %}{% for _, y := range []int{0, 1, 2} %}{% if y == a %}{% continue %}{% end %}{% if y == b %}{% break %}{% end %}{% x = x*5 + i + y %}{% end %}{% x++ %}{% end %}{% if x == r %}T{% end %}", func(a, b int, s string) (int, string) {
		x := 0
		for i := 0; i < 2; i++ {
			for _, y := range []int{0, 1, 2} {
				if y == a {
					continue
				}
				if y == b {
					break
				}
				x = x*5 + i + y
			}
			x++
		}
		return x, ""
	}},
	// range over a string: indexes and runes
	{"{% x := 0 %}{% for i, c := range s %}{% x = x*7 + i + int(c) %}{% end %}{% if x == r %}T{% end %}", func(a, b int, s string) (int, string) {
		x := 0
		for i, c := range s {
			x = x*7 + i + int(c)
		}
		return x, ""
	}},
	// a closure captures a local by reference
	{"{% n := a %}{% f := func() int { n++; return n * 2 } %}{% x := f() + f() %}{% if x + n == r %}T{% end %}", func(a, b int, s string) (int, string) {
		n := a
		f := func() int { n++; return n * 2 }
		x := f() + f()
		return x + n, ""
	}},
	// closures made in a loop capture distinct variables
	{"{% var fs []func() int %}{% for i := 0; i < 3; i++ %}{% j := i + a %}{% fs = append(fs, func() int { return j * b }) %}{% end %}{% x := 0 %}{% for _, f := range fs %}{% x = x*3 + f() %}{% end %}{% if x == r %}T{% end %}", func(a, b int, s string) (int, string) {
		var fs []func() int
		for i := 0; i < 3; i++ {
			j := i + a
			fs = append(fs, func() int { return j * b })
		}
		x := 0
		for _, f := range fs {
			x = x*3 + f()
		}
		return x, ""
	}},
	// deferred calls run in reverse order and see the final values of captured variables
	{"{% x := 0 %}{% f := func() { defer func() { x = x*10 + 1 }(); defer func(v int) { x = x*10 + v }(a & 7); x = 5 } %}{% f() %}{% if x == r %}T{% end %}", func(a, b int, s string) (int, string) {
		x := 0
		f := func() {
			defer func() { x = x*10 + 1 }()
			defer func(v int) { x = x*10 + v }(a & 7)
			x = 5
		}
		f()
		return x, ""
	}},
	// recover returns the panic value and the function returns its named result
	{"{% f := func() (res int) { defer func() { if v := recover(); v != nil { res = v.(int) + 1 } }(); if a > b { panic(a) }; return b } %}{% if f() == r %}T{% end %}", func(a, b int, s string) (int, string) {
		f := func() (res int) {
			defer func() {
				if v := recover(); v != nil {
					res = v.(int) + 1
				}
			}()
			if a > b {
				panic(a)
			}
			return b
		}
		return f(), ""
	}},
	// arrays are values, slices alias
	{"{% x := [2]int{a, b} %}{% y := x %}{% y[0] = 9 %}{% z := x[:] %}{% z[1] = 4 %}{% if x[0]*100 + x[1]*10 + y[0] == r %}T{% end %}", func(a, b int, s string) (int, string) {
		x := [2]int{a, b}
		y := x
		y[0] = 9
		z := x[:]
		z[1] = 4
		return x[0]*100 + x[1]*10 + y[0], ""
	}},
	// struct values and pointers
	{"{% type P struct { X, Y int } %}{% p := &P{a, b} %}{% p.X += p.Y %}{% q := *p %}{% q.X = 0 %}{% pp := &q %}{% pp.Y++ %}{% if p.X*3 + q.Y + p.Y == r %}T{% end %}", func(a, b int, s string) (int, string) {
		type P struct{ X, Y int }
		p := &P{a, b}
		p.X += p.Y
		q := *p
		q.X = 0
		pp := &q
		pp.Y++
		return p.X*3 + q.Y + p.Y, ""
	}},
	// maps: update, compound assignment, comma-ok, delete
	{"{% m := map[int]int{} %}{% m[a] = b %}{% m[a] += 2 %}{% m[b]++ %}{% _, ok := m[7] %}{% delete(m, 1) %}{% x := len(m)*1000 + m[a]*10 %}{% if ok %}{% x++ %}{% end %}{% if x == r %}T{% end %}", func(a, b int, s string) (int, string) {
		m := map[int]int{}
		m[a] = b
		m[a] += 2
		m[b]++
		_, ok := m[7]
		delete(m, 1)
		x := len(m)*1000 + m[a]*10
		if ok {
			x++
		}
		return x, ""
	}},
	// conversions between widths and shifts by a variable count
	{"{% x := int8(a) %}{% y := uint16(x) %}{% z := int32(y) << (uint(b) & 15) %}{% w := uint8(z >> 3) %}{% if int(y) + int(z) + int(w) == r %}T{% end %}", func(a, b int, s string) (int, string) {
		x := int8(a)
		y := uint16(x)
		z := int32(y) << (uint(b) & 15)
		w := uint8(z >> 3)
		return int(y) + int(z) + int(w), ""
	}},
	// strings: concatenation, slicing, bytes, comparison
	{"{% t := s + \"x\" + s %}{% u := []byte(t) %}{% u[0] = 'Z' %}{% v := string(u[:len(s)+1]) %}{% if v == rs && len(t) == r %}T{% end %}", func(a, b int, s string) (int, string) {
		t := s + "x" + s
		u := []byte(t)
		u[0] = 'Z'
		v := string(u[:len(s)+1])
		return len(t), v
	}},
	// multiple assignment evaluates the right side first
	{"{% x, y, z := a, b, 3 %}{% x, y, z = y, z, x %}{% sl := []int{x, y, z} %}{% i := 0 %}{% i, sl[i] = 2, 9 %}{% if sl[0]*100 + sl[1]*10 + sl[2] + i == r %}T{% end %}", func(a, b int, s string) (int, string) {
		x, y, z := a, b, 3
		x, y, z = y, z, x
		sl := []int{x, y, z}
		i := 0
		i, sl[i] = 2, 9
		return sl[0]*100 + sl[1]*10 + sl[2] + i, ""
	}},
	// variadic function and slice expansion
	{"{% f := func(xs ...int) int { t := len(xs); for _, x := range xs { t = t*5 + x }; return t } %}{% if f() + f(a) + f(a, b) + f([]int{b, a, 1}...) == r %}T{% end %}", func(a, b int, s string) (int, string) {
		f := func(xs ...int) int {
			t := len(xs)
			for _, x := range xs {
				t = t*5 + x
			}
			return t
		}
		return f() + f(a) + f(a, b) + f([]int{b, a, 1}...), ""
	}},
}

func vc01_e2e_stmt(lo, hi int) {
	c := vstmtCases[lo+vsym_choice(hi-lo)]
	a, b := int(vsym_i8()), int(vsym_i8())
	vassume(-2 <= a && a <= 9 && -2 <= b && b <= 9)
	s := vsym_string(2)
	r, rs := c.ref(a, b, s)
	opts := &BuildOptions{Globals: native.Declarations{"a": &a, "b": &b, "s": &s, "r": &r, "rs": &rs}}
	tmpl, err := BuildTemplate(Files{"index.txt": []byte(c.src)}, "index.txt", opts)
	vassert(err == nil, "builds")
	var out vbuf
	err, rec := vrunRecover(tmpl, &out)
	vassert(rec == nil, "no-host-panic")
	vassert(err == nil, "runs")
	vassert(string(out.b) == "T", "statements-compute-go's-result")
	vreach("end")
}

// Labelled break and continue (C01 lists labelled control flow). On the
// current tree these are known findings: see known_findings.json.
func vc01_e2e_labelled() {
	a := int(vsym_i8())
	vassume(-1 <= a && a <= 3)
	var src string
	var r int
	which := vsym_choice(3)
	switch which {
	case 0: // break out of the outer of two for loops
		src = "{% x := 0 %}{% L: for i := 0; i < 3; i++ %}{% for j := 0; j < 3; j++ %}{% if j == a %}{% break L %}{% end %}{% x = x*4 + i + j + 1 %}{% end %}{% end %}{% if x == r %}T{% end %}"
		x := 0
	L0:
		for i := 0; i < 3; i++ {
			for j := 0; j < 3; j++ {
				if j == a {
					break L0
				}
				x = x*4 + i + j + 1
			}
		}
		r = x
	case 1: // break out of a for loop from a switch
		src = "{% x := 0 %}{% L: for i := 0; i < 3; i++ %}{% switch %}{% case i == a %}{% break L %}{% end %}{% x = x*4 + i + 1 %}{% end %}{% if x == r %}T{% end %}"
		x := 0
	L1:
		for i := 0; i < 3; i++ {
			switch {
			case i == a:
				break L1
			}
			x = x*4 + i + 1
		}
		r = x
	case 2: // continue the outer of two for loops
		src = "{% x := 0 %}{% L: for i := 0; i < 3; i++ %}{% for j := 0; j < 3; j++ %}{% if j == a %}{% continue L %}{% end %}{% x = x*4 + i + j + 1 %}{% end %}{% end %}{% if x == r %}T{% end %}"
		x := 0
	L2:
		for i := 0; i < 3; i++ {
			for j := 0; j < 3; j++ {
				if j == a {
					continue L2
				}
				x = x*4 + i + j + 1
			}
		}
		r = x
	}
	opts := &BuildOptions{Globals: native.Declarations{"a": &a, "r": &r}}
	var tmpl *Template
	var err error
	var rec any
	func() {
		defer func() { rec = recover() }()
		tmpl, err = BuildTemplate(Files{"index.txt": []byte(src)}, "index.txt", opts)
	}()
	vassert(rec == nil, "labelled-continue-builds-without-an-internal-error")
	vassert(err == nil, "builds")
	var out vbuf
	vassert(tmpl.Run(&out, nil, nil) == nil, "runs")
	vassert(string(out.b) == "T", "labelled-break-leaves-the-labelled-statement")
	vreach("end")
}

func vh_c01_e2e_labelled_q() { vc01_e2e_labelled() }
func vh_c01_e2e_stmt1_q() { vc01_e2e_stmt(0, 6) }
func vh_c01_e2e_stmt2_q() { vc01_e2e_stmt(6, 11) }
func vh_c01_e2e_stmt3_q() { vc01_e2e_stmt(11, len(vstmtCases)) }
