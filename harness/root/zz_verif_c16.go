package scriggo

import "github.com/open2b/scriggo/native"

// C16 (end to end): {{ render "f" }} gives the same output as assigning the
// render expression to a variable and showing the variable and, when the
// formats match, as running f on its own between the surrounding texts; an
// imported macro behaves as if declared in the importing file; a file that
// extends a layout renders as the layout with the child's macros.

func vc16_run(fsys Files, name string, s *string) (string, error) {
	tmpl, err := BuildTemplate(fsys, name, &BuildOptions{Globals: native.Declarations{"s": s}})
	if err != nil {
		return "", err
	}
	var out vbuf
	err = tmpl.Run(&out, nil, nil)
	return string(out.b), err
}

func vc16_render() {
	s := vsym_string(1)
	// the partial, in a file of each format, with a text and a show
	partials := []struct{ name, src string }{
		{"p.html", "<b>{{ s }}</b>"},
		{"p.txt", "t:{{ s }}"},
		{"p.js", "var a = {{ s }};"},
		{"p.css", "a { b: {{ s }} }"},
		{"p.json", "[{{ s }}]"},
	}
	hosts := []struct{ name, pre, post string }{
		{"index.html", "<p>", "</p>"},
		{"index.txt", "x", "y"},
		{"index.js", "f(", ");"},
		{"index.html", "<script>", "</script>"},
		{"index.html", "<a title=\"", "\">"},
	}
	p := partials[vsym_choice(len(partials))]
	h := hosts[vsym_choice(len(hosts))]
	direct := Files{h.name: []byte(h.pre + "{{ render \"" + p.name + "\" }}" + h.post), p.name: []byte(p.src)}
	viaVar := Files{h.name: []byte("{% var t = render \"" + p.name + "\" %}" + h.pre + "{{ t }}" + h.post), p.name: []byte(p.src)}
	o1, e1 := vc16_run(direct, h.name, &s)
	o2, e2 := vc16_run(viaVar, h.name, &s)
	vassert((e1 == nil) == (e2 == nil), "render-and-render-through-a-variable-build-and-run-alike")
	if e1 != nil {
		vreach("rejected")
		return
	}
	vassert(o1 == o2, "render-equals-render-assigned-to-a-variable")
	sameFormat := (h.name == "index.html" && p.name == "p.html" && h.pre == "<p>") || (h.name == "index.txt" && p.name == "p.txt") || (h.name == "index.js" && p.name == "p.js")
	if sameFormat {
		own, e3 := vc16_run(Files{p.name: []byte(p.src)}, p.name, &s)
		vassert(e3 == nil, "partial-runs-on-its-own")
		vassert(o1 == h.pre+own+h.post, "render-equals-the-partial-run-on-its-own")
	}
	vreach("end")
}

func vc16_import_extends() {
	s := vsym_string(1)
	// the name of the macro: every upper-case ASCII letter
	name := string([]byte{byte('A' + vsym_choice(26))})
	macro := "{% macro " + name + "(x string) %}<i>{{ x }}{{ s }}</i>{% end %}"
	use := "<p>{{ " + name + "(\"a\") }}</p>"
	local, e0 := vc16_run(Files{"index.html": []byte(macro + use)}, "index.html", &s)
	vassert(e0 == nil, "local-macro-runs")
	imported, e1 := vc16_run(Files{"index.html": []byte("{% import \"m.html\" %}" + use), "m.html": []byte(macro)}, "index.html", &s)
	vassert(e1 == nil, "imported-macro-runs")
	vassert(imported == local, "imported-macro-behaves-as-if-declared-in-the-importing-file")
	named, e2 := vc16_run(Files{"index.html": []byte("{% import m \"m.html\" %}<p>{{ m." + name + "(\"a\") }}</p>"), "m.html": []byte(macro)}, "index.html", &s)
	vassert(e2 == nil && named == local, "macro-imported-with-a-name-behaves-alike")
	ext, e3 := vc16_run(Files{"index.html": []byte("{% extends \"l.html\" %}" + macro), "l.html": []byte(use)}, "index.html", &s)
	vassert(e3 == nil, "extending-file-runs")
	vassert(ext == local, "extends-renders-the-layout-with-the-child's-macros")
	vreach("end")
}

// a rendered file that itself assigns a render expression to a variable,
// after having produced output: shown directly, through a variable and run
// on its own it gives the same text
func vc16_nested() {
	s := vsym_string(1)
	f := "f1{% var u = render \"g.html\" %}f2{{ u }}f3"
	g := "G{{ s }}"
	direct, e1 := vc16_run(Files{"index.html": []byte("<p>{{ render \"f.html\" }}</p>"), "f.html": []byte(f), "g.html": []byte(g)}, "index.html", &s)
	viaVar, e2 := vc16_run(Files{"index.html": []byte("{% var t = render \"f.html\" %}<p>{{ t }}</p>"), "f.html": []byte(f), "g.html": []byte(g)}, "index.html", &s)
	own, e3 := vc16_run(Files{"f.html": []byte(f), "g.html": []byte(g)}, "f.html", &s)
	vassert(e1 == nil && e2 == nil && e3 == nil, "nested-renders-run")
	vassert(direct == viaVar, "nested-render-equals-render-assigned-to-a-variable")
	vassert(direct == "<p>"+own+"</p>", "nested-render-equals-the-partial-run-on-its-own")
	vreach("end")
}

// import ... for: only the listed names are imported, in either order of the
// import statements; the macros of each file keep calling their own siblings
func vc16_import_for() {
	s := vsym_string(1)
	x := "{% macro A %}xA{{ s }}{% end %}"
	y := "{% macro A %}yA{% end %}{% macro B %}yB{{ A() }}{% end %}{% var V = 3 %}"
	imports := []string{
		"{% import \"x.html\" for A %}{% import \"y.html\" for B %}",
		"{% import \"y.html\" for B %}{% import \"x.html\" for A %}",
		"{% import \"y.html\" for B, V %}{% import \"x.html\" for A %}",
	}
	out, err := vc16_run(Files{"index.html": []byte(imports[vsym_choice(len(imports))] + "{{ A() }}|{{ B() }}"), "x.html": []byte(x), "y.html": []byte(y)}, "index.html", &s)
	vassert(err == nil, "imports-build-and-run")
	vassert(out == "xA"+HTMLEscapeForTest(s)+"|yByA", "import-for-imports-only-the-listed-names")
	vreach("end")
}

// HTMLEscapeForTest is the reference escaping of a one-byte string in HTML.
func HTMLEscapeForTest(s string) string { return string(HTMLEscape(s)) }

func vh_c16_import_for_q()     { vc16_import_for() }
func vh_c16_nested_q()         { vc16_nested() }
func vh_c16_render_q()         { vc16_render() }
func vh_c16_import_extends_q() { vc16_import_extends() }
