package scriggo

import "github.com/open2b/scriggo/native"

// C04 (end to end on tiny sources): BuildTemplate and Build — lexer, parser,
// type checker and emitter — never panic and fail only with a *BuildError,
// for every choice of the symbolic bytes placed in a small template or
// program. Paths on which the source contains a floating-point or imaginary
// literal reach math/big.Float or complex arithmetic, which the engine does
// not model: they are counted as having left the kernel and are not judged.

func vc04_build(prefix, suffix string, n int) {
	vopt_goleak()
	sym := vsym_bytes(n)
	src := append(append([]byte(prefix), sym...), suffix...)
	_, err := BuildTemplate(Files{"index.html": src}, "index.html", nil)
	if err != nil {
		_, ok := err.(*BuildError)
		vassert(ok, "error-is-a-BuildError")
		vreach("rejected")
		return
	}
	vreach("built")
}

func vc04_buildprog(prefix, suffix string, n int) {
	vopt_goleak()
	sym := vsym_bytes(n)
	src := append(append([]byte(prefix), sym...), suffix...)
	_, err := Build(Files{"main.go": src}, nil)
	if err != nil {
		_, ok := err.(*BuildError)
		vassert(ok, "error-is-a-BuildError")
		vreach("rejected")
		return
	}
	vreach("built")
}

// Files that extend, import or render each other, in every combination of
// how the second file is reached and what it starts with (cycles included),
// plus two arbitrary bytes in the second file.
func vc04_build_multi() {
	vopt_goleak()
	reach := []string{
		"{{ render \"p.html\" }}",
		"{{ render \"p.html\" default 5 }}",
		"{% import \"p.html\" %}",
		"{% import P \"p.html\" %}{{ P.X() }}",
		"{% extends \"p.html\" %}",
		"{% macro M %}{{ render \"p.html\" default \"x\" }}{% end %}{{ M() }}",
		"{% import \"p.html\" for X %}{{ X() }}",
		"{% if true %}{{ render \"p.html\" default render \"l.html\" }}{% end %}",
	}
	second := []string{
		"{% extends \"l.html\" %}",
		"{% extends \"l.html\" %}{% macro B %}b{% end %}",
		"{% import \"l.html\" %}{% macro X %}x{% end %}",
		"{{ render \"l.html\" }}",
		"{{ render \"index.html\" }}",
		"{% extends \"index.html\" %}",
		"{% macro X %}x{% end %}",
		"text",
		"{% macro X %}{{ render \"l.html\" default 3 }}{% end %}",
	}
	third := []string{"", "{{ B() }}", "{% extends \"p.html\" %}", "{% macro B %}c{% end %}"}
	p := second[vsym_choice(len(second))]
	if vsym_choice(2) == 1 {
		p = string(vsym_bytes(2)) + p
	}
	fsys := Files{
		"index.html": []byte(reach[vsym_choice(len(reach))]),
		"p.html":     []byte(p),
		"l.html":     []byte(third[vsym_choice(len(third))]),
	}
	_, err := BuildTemplate(fsys, "index.html", nil)
	if err != nil {
		_, ok := err.(*BuildError)
		vassert(ok, "error-is-a-BuildError")
		vreach("rejected")
		return
	}
	vreach("built")
}

// a long tail after the symbolic bytes: more tokens than the lexer's channel
// buffers, so a parser that returns early without draining leaves the lexer
// goroutine blocked
const vc04Tail = "{{ 1 }}{{ 1 }}{{ 1 }}{{ 1 }}{{ 1 }}{{ 1 }}{{ 1 }}{{ 1 }}{{ 1 }}{{ 1 }}{{ 1 }}{{ 1 }}"

func vh_c04_build_leak1_q() { vc04_build("{{ ", " }}"+vc04Tail, 2) }
func vh_c04_build_leak2_q() { vc04_build("{% switch %}", "{% end %}"+vc04Tail, 2) }
func vh_c04_build_leak3_q() { vc04_build("{% extends \"l.html\" %}", vc04Tail, 2) }
// labelled break, continue and goto statements build (or are rejected with a
// *BuildError): no internal error out of BuildTemplate. Known finding on the
// current tree for continue: see known_findings.json.
func vc04_build_labelled() {
	kw := []string{"break L", "continue L", "goto L", "break", "continue"}[vsym_choice(5)]
	inner := []string{"", "{% for j := 0; j < 2; j++ %}", "{% switch %}{% default %}", "{% for _, j := range sl %}"}[vsym_choice(4)]
	end := ""
	if inner != "" {
		end = "{% end %}"
	}
	outer := []string{"{% L: for i := 0; i < 2; i++ %}", "{% L: for _, i := range sl %}"}[vsym_choice(2)]
	src := "{% sl := []int{1, 2} %}" + outer + inner + "{% " + kw + " %}" + end + "{% end %}"
	var err error
	var rec any
	func() {
		defer func() { rec = recover() }()
		_, err = BuildTemplate(Files{"index.txt": []byte(src)}, "index.txt", nil)
	}()
	vassert(rec == nil, "labelled-statement-builds-without-an-internal-error")
	if err != nil {
		_, ok := err.(*BuildError)
		vassert(ok, "error-is-a-BuildError")
		vreach("rejected")
		return
	}
	vreach("built")
}

func vh_c04_build_labelled_q() { vc04_build_labelled() }
func vh_c04_build_multi_q() { vc04_build_multi() }
func vh_c04_build_show_q() { vc04_build("{{ ", " }}", 2) }
func vh_c04_build_stmt_q() { vc04_build("{% ", " %}", 2) }
func vh_c04_build_expr_q() { vc04_build("{{ 7", " }}", 2) }
func vh_c04_build_var_q()  { vc04_build("{% var a = 5 %}{{ a", " }}", 2) }
func vh_c04_build_prog_q() { vc04_buildprog("package main\nfunc main() { var a = 3", "; _ = a }\n", 2) }

func vh_c04_build_show_t() { vc04_build("{{ ", " }}", 3) }
func vh_c04_build_expr_t() { vc04_build("{{ 7", "3 }}", 3) }
func vh_c04_build_str_t()  { vc04_build("{{ \"a\"", " }}", 3) }
func vh_c04_build_prog_t() { vc04_buildprog("package main\nfunc main() { var a = 3", "; _ = a }\n", 3) }
func vh_c04_build_if_t()   { vc04_build("{% if ", " %}x{% end %}", 3) }

type vbuf struct{ b []byte }

func (w *vbuf) Write(p []byte) (int, error) { w.b = append(w.b, p...); return len(p), nil }

// C05 (end to end on tiny templates): what builds also runs without a host
// panic; Run returns nil or a *PanicError. Two int globals with arbitrary
// values are combined by an arbitrary operator spelled with symbolic bytes.
func vc05_run(prefix, suffix string, n int) {
	a, b := int(vsym_i64()), int(vsym_i64())
	sym := vsym_bytes(n)
	src := append(append([]byte(prefix), sym...), suffix...)
	opts := &BuildOptions{Globals: native.Declarations{"a": &a, "b": &b}}
	tmpl, err := BuildTemplate(Files{"index.txt": src}, "index.txt", opts)
	if err != nil {
		_, ok := err.(*BuildError)
		vassert(ok, "error-is-a-BuildError")
		vreach("rejected")
		return
	}
	var out vbuf
	err = tmpl.Run(&out, nil, nil)
	if err != nil {
		_, ok := err.(*PanicError)
		vassert(ok, "run-error-is-a-PanicError")
		vreach("run-error")
	}
	vreach("ran")
}

func vh_dbgrun_1() { vc05_run("{% if a ", " b %}T{% end %}", 1) }
func vh_dbgrun_2() { vc05_run("{% c := a ", " b %}{% if c == a %}T{% end %}", 1) }
