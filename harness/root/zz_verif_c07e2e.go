package scriggo

import "github.com/open2b/scriggo/native"

// C07 / C06 (end to end): a template with one show of a string global is
// built by the real pipeline (the lexer decides the context, the emitter
// emits the Show instruction for it) and run by the real VM and renderer; the
// bytes rendered in the slot, decoded with the slot's standard decoder, are
// the string, and they contain none of the bytes that would end the slot.

func vhexval(c byte) int {
	switch {
	case '0' <= c && c <= '9':
		return int(c - '0')
	case 'a' <= c && c <= 'f':
		return int(c-'a') + 10
	case 'A' <= c && c <= 'F':
		return int(c-'A') + 10
	}
	return -1
}

// vref_htmlDecode decodes the character references HTML defines for the
// escapers' output: decimal numeric references and the named references
// amp, lt, gt, quot, apos. Any other use of '&' is reported as malformed, so a
// raw '&' that survived escaping is caught.
func vref_htmlDecode(b []byte) (out []byte, ok bool) {
	for i := 0; i < len(b); {
		c := b[i]
		if c != '&' {
			out = append(out, c)
			i++
			continue
		}
		j := i + 1
		for j < len(b) && b[j] != ';' && j-i < 8 {
			j++
		}
		if j >= len(b) || b[j] != ';' {
			return out, false
		}
		name := string(b[i+1 : j])
		switch name {
		case "amp":
			out = append(out, '&')
		case "lt":
			out = append(out, '<')
		case "gt":
			out = append(out, '>')
		case "quot":
			out = append(out, '"')
		case "apos":
			out = append(out, '\'')
		default:
			if len(name) < 2 || name[0] != '#' {
				return out, false
			}
			v := 0
			for k := 1; k < len(name); k++ {
				d := name[k]
				if d < '0' || d > '9' {
					return out, false
				}
				v = v*10 + int(d-'0')
			}
			if v == 0 || v > 255 {
				return out, false
			}
			out = append(out, byte(v))
		}
		i = j + 1
	}
	return out, true
}

// vref_cssDecode decodes CSS escapes in a string token per CSS Syntax 3 §4.3.7:
// '\' followed by 1-6 hex digits and one optional whitespace, or '\' followed
// by any other code point. The escaper only escapes ASCII, so a decoded escape
// must be a non-zero value < 0x80.
func vref_cssDecode(b []byte) (out []byte, ok bool) {
	for i := 0; i < len(b); {
		c := b[i]
		if c != '\\' {
			out = append(out, c)
			i++
			continue
		}
		i++
		if i >= len(b) {
			return out, false // escape at end of string
		}
		if vhexval(b[i]) < 0 {
			if b[i] == '\n' || b[i] == '\r' || b[i] == '\f' {
				return out, false // escaped newline is a line continuation
			}
			out = append(out, b[i])
			i++
			continue
		}
		v := 0
		n := 0
		for i < len(b) && n < 6 && vhexval(b[i]) >= 0 {
			v = v*16 + vhexval(b[i])
			i++
			n++
		}
		if i < len(b) && (b[i] == ' ' || b[i] == '\t' || b[i] == '\n' || b[i] == '\f' || b[i] == '\r') {
			i++
		}
		if v == 0 || v >= 0x80 {
			return out, false
		}
		out = append(out, byte(v))
	}
	return out, true
}

// vref_jsDecode decodes a JavaScript/JSON string literal body. \uXXXX is
// decoded to UTF-8 (only BMP non-surrogates are produced by the escaper).
func vref_jsDecode(b []byte) (out []byte, ok bool) {
	for i := 0; i < len(b); {
		c := b[i]
		if c != '\\' {
			out = append(out, c)
			i++
			continue
		}
		i++
		if i >= len(b) {
			return out, false
		}
		switch b[i] {
		case 'b':
			out = append(out, '\b')
		case 'f':
			out = append(out, '\f')
		case 'n':
			out = append(out, '\n')
		case 'r':
			out = append(out, '\r')
		case 't':
			out = append(out, '\t')
		case '"', '\\', '/':
			out = append(out, b[i])
		case 'u':
			if i+4 >= len(b) {
				return out, false
			}
			v := 0
			for k := 1; k <= 4; k++ {
				h := vhexval(b[i+k])
				if h < 0 {
					return out, false
				}
				v = v*16 + h
			}
			i += 4
			switch {
			case v < 0x80:
				out = append(out, byte(v))
			case v < 0x800:
				out = append(out, byte(0xC0|v>>6), byte(0x80|v&0x3F))
			case v >= 0xD800 && v < 0xE000:
				return out, false
			default:
				out = append(out, byte(0xE0|v>>12), byte(0x80|(v>>6)&0x3F), byte(0x80|v&0x3F))
			}
		default:
			return out, false // not a JSON escape
		}
		i++
	}
	return out, true
}

// vref_percentDecode decodes %XX sequences; anything else is kept.
func vref_percentDecode(b []byte) (out []byte, ok bool) {
	for i := 0; i < len(b); {
		if b[i] != '%' {
			out = append(out, b[i])
			i++
			continue
		}
		if i+2 >= len(b) || vhexval(b[i+1]) < 0 || vhexval(b[i+2]) < 0 {
			return out, false
		}
		out = append(out, byte(vhexval(b[i+1])<<4|vhexval(b[i+2])))
		i += 3
	}
	return out, true
}

type ve2eSlot struct {
	file, pre, post string
	kind            int // 0 html text, 1 quoted attr, 2 unquoted attr, 3 js string, 4 css string, 5 url query
}

var ve2eSlots = []ve2eSlot{
	{"index.html", "<p>", "</p>", 0},
	{"index.html", "<p title=\"", "\">x</p>", 1},
	{"index.html", "<p title=", ">x</p>", 2},
	{"index.html", "<script>var a = \"", "\";</script>", 3},
	{"index.html", "<script>var a = '", "';</script>", 3},
	{"index.html", "<style>p::after { content: \"", "\" }</style>", 4},
	{"index.html", "<a href=\"/p?q=", "\">x</a>", 5},
	{"index.js", "var a = \"", "\";", 3},
	{"index.css", "p::after { content: '", "' }", 4},
}

func vc07_e2e(n int) {
	s := vsym_string(n)
	slot := ve2eSlots[vsym_choice(len(ve2eSlots))]
	src := slot.pre + "{{ s }}" + slot.post
	opts := &BuildOptions{Globals: native.Declarations{"s": &s}}
	tmpl, err := BuildTemplate(Files{slot.file: []byte(src)}, slot.file, opts)
	vassert(err == nil, "builds")
	var out vbuf
	vassert(tmpl.Run(&out, nil, nil) == nil, "runs")
	b := out.b
	vassert(len(b) >= len(slot.pre)+len(slot.post), "text-around-the-show-is-emitted")
	vassert(string(b[:len(slot.pre)]) == slot.pre && string(b[len(b)-len(slot.post):]) == slot.post, "template-text-verbatim")
	e := b[len(slot.pre) : len(b)-len(slot.post)]
	var dec []byte
	ok := false
	switch slot.kind {
	case 0:
		for _, c := range e {
			vassert(c != '<' && c != '>', "no-markup-byte-in-html-text")
		}
		dec, ok = vref_htmlDecode(e)
	case 1:
		for _, c := range e {
			vassert(c != '"', "no-quote-in-quoted-attribute")
		}
		dec, ok = vref_htmlDecode(e)
	case 2:
		for _, c := range e {
			vassert(c != ' ' && c != '\t' && c != '\n' && c != '\r' && c != '\f' && c != '>' && c != '"' && c != '\'' && c != '=' && c != '<' && c != '`', "no-terminator-in-unquoted-attribute")
		}
		dec, ok = vref_htmlDecode(e)
	case 3:
		for i := 0; i < len(e); i++ {
			c := e[i]
			vassert(c != '"' && c != '\'' && c != '\n' && c != '\r' && c != '<' && c != '>', "no-terminator-in-js-string")
			if c == '\\' {
				i++
			}
		}
		dec, ok = vref_jsDecode(e)
	case 4:
		for _, c := range e {
			vassert(c != '"' && c != '\'' && c != '\n' && c != '<' && c != '>', "no-terminator-in-css-string")
		}
		for _, c := range []byte(s) {
			vassume(c != 0) // NUL is not representable in CSS (decodes to U+FFFD by specification)
		}
		dec, ok = vref_cssDecode(e)
	case 5:
		for _, c := range e {
			vassert(c != '"' && c != '<' && c != '>' && c != ' ', "no-terminator-in-url-attribute")
		}
		h, ok1 := vref_htmlDecode(e)
		vassert(ok1, "well-formed-references")
		dec, ok = vref_percentDecode(h)
	}
	vassert(ok, "well-formed-escapes")
	vassert(string(dec) == s, "slot-decodes-to-the-shown-string")
	vreach("end")
}

func vh_c07_e2e_q() { vc07_e2e(2) }
func vh_c07_e2e_t() { vc07_e2e(3) }

// the same exploration registered for C06 (the confinement assertions)
func vh_c06_e2e_q() { vc07_e2e(2) }
func vh_c06_e2e_t() { vc07_e2e(3) }
