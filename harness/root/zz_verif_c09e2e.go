package scriggo

import (
	"errors"
	"reflect"

	"github.com/open2b/scriggo/native"
)

// C09 (end to end): a value of each catalogue type is shown in each context by
// a template built by BuildTemplate and run by Template.Run, once through a
// global of its static type and once boxed in an interface{} global. What the
// type checker accepts never fails at run time with "cannot show"; the boxed
// value fails only when the static type is rejected.

type v9S struct{ s string }

func (v v9S) String() string { return v.s }

type v9Err struct{ s string }

func (v v9Err) Error() string { return v.s }

type v9HS struct{ s string }

func (v v9HS) HTML() native.HTML { return native.HTML(v.s) }

type v9JS struct{ s string }

func (v v9JS) JS() native.JS { return native.JS(v.s) }

type v9Plain struct {
	A int
	B string `json:"b"`
}
type v9Int int
type v9String string
type v9Bytes []byte

const v9numTypes = 30

func v9sample(i int) any {
	switch i {
	case 0:
		return vsym_bool()
	case 1:
		return int(vsym_i8())
	case 2:
		return vsym_i8()
	case 3:
		return int64(vsym_i8())
	case 4:
		return uint(vsym_u8())
	case 5:
		return vsym_u8()
	case 6:
		return uint32(vsym_u8())
	case 7:
		return uintptr(vsym_u8())
	case 8:
		return float32(1.5)
	case 9:
		return float64(2.25)
	case 10:
		return vsym_string(1)
	case 11:
		return vsym_bytes(1)
	case 12:
		return v9S{"s"}
	case 13:
		return v9Err{"e"}
	case 14:
		return v9HS{"h"}
	case 15:
		return v9JS{"1"}
	case 16:
		return v9Plain{1, "b"}
	case 17:
		return v9Int(vsym_i8())
	case 18:
		return v9String(vsym_string(1))
	case 19:
		return v9Bytes(vsym_bytes(1))
	case 20:
		return []int{1, 2}
	case 21:
		return [2]string{"a", "b"}
	case 22:
		x := 3
		return &x
	case 23:
		return func() {}
	case 24:
		return errors.New("e")
	case 25:
		return native.HTML("<b>")
	case 26:
		return native.JS("1")
	case 27:
		return native.CSS("c")
	case 28:
		return map[string]int{"k": 1}
	case 29:
		return []string{"a"}
	}
	return nil
}

type v9ctx struct{ file, pre, post string }

var v9contexts = []v9ctx{
	{"index.txt", "", ""},
	{"index.html", "<p>", "</p>"},
	{"index.html", "<a title=\"", "\">"},
	{"index.html", "<a title=", ">"},
	{"index.html", "<a href=\"", "\">"},
	{"index.html", "<a ", ">"},
	{"index.html", "<script>var a = ", ";</script>"},
	{"index.html", "<script>var a = \"", "\";</script>"},
	{"index.html", "<style>a { width: ", " }</style>"},
	{"index.html", "<style>a { font: \"", "\" }</style>"},
	{"index.html", "<script type=\"application/json\">", "</script>"},
	{"index.html", "<script type=\"application/json\">\"", "\"</script>"},
	{"index.md", "# ", "\n"},
	{"index.md", "\tcode ", "\n"},
	{"index.js", "var a = ", ";"},
	{"index.css", "a { width: ", " }"},
	{"index.json", "[", "]"},
}

func v9cannotShow(err error) bool {
	if err == nil {
		return false
	}
	s := err.Error()
	return len(s) >= 11 && s[:11] == "cannot show"
}

func vc09_e2e(lo, hi int) {
	c := v9contexts[lo+vsym_choice(hi-lo)]
	v := v9sample(vsym_choice(v9numTypes))
	src := c.pre + "{{ v }}" + c.post
	if vsym_choice(2) == 1 {
		// the shown value is the left operand of a default expression
		src = c.pre + "{{ v default \"x\" }}" + c.post
	}
	// a global of the static type of v
	pv := reflect.New(reflect.TypeOf(v))
	pv.Elem().Set(reflect.ValueOf(v))
	tmpl, err := BuildTemplate(Files{c.file: []byte(src)}, c.file, &BuildOptions{Globals: native.Declarations{"v": pv.Interface()}})
	accepted := err == nil
	if !accepted {
		_, ok := err.(*BuildError)
		vassert(ok, "rejection-is-a-BuildError")
		vreach("rejected")
	} else {
		var out vbuf
		err, rec := vrunRecover(tmpl, &out)
		vassert(rec == nil, "no-host-panic")
		vassert(!v9cannotShow(err), "statically-accepted-show-does-not-fail-with-cannot-show")
		vreach("accepted")
	}
	// the same value boxed in an interface
	var w any = v
	tmpl, err = BuildTemplate(Files{c.file: []byte(src)}, c.file, &BuildOptions{Globals: native.Declarations{"v": &w}})
	vassert(err == nil, "show-of-an-interface-value-builds")
	var out vbuf
	err, rec := vrunRecover(tmpl, &out)
	vassert(rec == nil, "no-host-panic-boxed")
	if accepted {
		vassert(!v9cannotShow(err), "boxed-value-of-an-accepted-type-does-not-fail-with-cannot-show")
	}
	vreach("end")
}

func vh_c09_e2e_1_q() { vc09_e2e(0, 6) }
func vh_c09_e2e_2_q() { vc09_e2e(6, 12) }
func vh_c09_e2e_3_q() { vc09_e2e(12, len(v9contexts)) }

// the same for a type defined in the template over each catalogue type
// ({% type P T %}): a defined type has no methods, whatever T has
func vc09_e2e_defined(lo, hi int) {
	c := v9contexts[lo+vsym_choice(hi-lo)]
	v := v9sample(vsym_choice(v9numTypes))
	src := "{% type P T %}{% var t T %}" + c.pre + "{{ P(t) }}" + c.post
	if vsym_choice(2) == 1 {
		src = "{% type P T %}{% var p P %}" + c.pre + "{{ p }}" + c.post
	}
	tmpl, err := BuildTemplate(Files{c.file: []byte(src)}, c.file, &BuildOptions{Globals: native.Declarations{"T": reflect.TypeOf(v)}})
	if err != nil {
		_, ok := err.(*BuildError)
		vassert(ok, "rejection-is-a-BuildError")
		vreach("rejected")
		return
	}
	var out vbuf
	err, rec := vrunRecover(tmpl, &out)
	vassert(rec == nil, "no-host-panic")
	vassert(!v9cannotShow(err), "statically-accepted-show-of-a-defined-type-does-not-fail-with-cannot-show")
	vreach("accepted")
}

func vh_c09_e2e_defined_q() { vc09_e2e_defined(0, len(v9contexts)) }
