package scriggo

import "github.com/open2b/scriggo/native"

// C01 (end to end on one expression): a template is built by the real
// pipeline (lexer, parser, type checker, emitter) and run by the real VM with
// two global variables of an integer type holding arbitrary values; the value
// of "a OP b" computed by the interpreter equals the value computed by Go's
// typed operator for every pair of operand values, and a division by zero is
// a *PanicError with Go's message. This exercises constant-free code
// generation, register allocation for one expression, GetVar/conversion of
// globals and the ALU together.

type ve2eInt interface {
	~int | ~int8 | ~int16 | ~int32 | ~int64 | ~uint | ~uint8 | ~uint16 | ~uint32 | ~uint64
}

var ve2eOps = []string{"+", "-", "*", "/", "%", "&", "|", "^", "&^", "<", "<=", "==", "!="}

func ve2eRef[T ve2eInt](op string, a, b T) (r T, cmp bool, isCmp bool) {
	switch op {
	case "+":
		return a + b, false, false
	case "-":
		return a - b, false, false
	case "*":
		return a * b, false, false
	case "/":
		return a / b, false, false
	case "%":
		return a % b, false, false
	case "&":
		return a & b, false, false
	case "|":
		return a | b, false, false
	case "^":
		return a ^ b, false, false
	case "&^":
		return a &^ b, false, false
	case "<":
		return 0, a < b, true
	case "<=":
		return 0, a <= b, true
	case "==":
		return 0, a == b, true
	case "!=":
		return 0, a != b, true
	}
	return 0, false, false
}

func ve2e[T ve2eInt](a, b T) {
	op := ve2eOps[vsym_choice(len(ve2eOps))]
	zeroDiv := (op == "/" || op == "%") && b == 0
	var c T
	var want bool
	isCmp := false
	if !zeroDiv {
		c, want, isCmp = ve2eRef(op, a, b)
	}
	src := "{% if a " + op + " b == c %}T{% else %}F{% end %}"
	if isCmp || op == "<" || op == "<=" || op == "==" || op == "!=" {
		src = "{% if a " + op + " b %}T{% else %}F{% end %}"
	}
	opts := &BuildOptions{Globals: native.Declarations{"a": &a, "b": &b, "c": &c}}
	tmpl, err := BuildTemplate(Files{"index.txt": []byte(src)}, "index.txt", opts)
	vassert(err == nil, "builds")
	var out vbuf
	err = tmpl.Run(&out, nil, nil)
	if zeroDiv {
		pe, ok := err.(*PanicError)
		vassert(ok, "division-by-zero-is-a-PanicError")
		me, isErr := pe.Message().(error)
		vassert(isErr && me.Error() == "runtime error: integer divide by zero", "go's-message")
		return
	}
	vassert(err == nil, "runs")
	expect := "T"
	if isCmp && !want {
		expect = "F"
	}
	vassert(string(out.b) == expect, "interpreted-value-equals-go's")
	vreach("end")
}

func vh_c01_e2e_int_q()    { ve2e(int(vsym_i64()), int(vsym_i64())) }
func vh_c01_e2e_int8_q()   { ve2e(vsym_i8(), vsym_i8()) }
func vh_c01_e2e_int16_q()  { ve2e(vsym_i16(), vsym_i16()) }
func vh_c01_e2e_int32_q()  { ve2e(vsym_i32(), vsym_i32()) }
func vh_c01_e2e_int64_q()  { ve2e(vsym_i64(), vsym_i64()) }
func vh_c01_e2e_uint_q()   { ve2e(uint(vsym_u64()), uint(vsym_u64())) }
func vh_c01_e2e_uint8_q()  { ve2e(vsym_u8(), vsym_u8()) }
func vh_c01_e2e_uint16_q() { ve2e(vsym_u16(), vsym_u16()) }
func vh_c01_e2e_uint32_q() { ve2e(vsym_u32(), vsym_u32()) }
func vh_c01_e2e_uint64_q() { ve2e(vsym_u64(), vsym_u64()) }

// ---- compound expressions and a few statements ----

type ve2eCase[T ve2eInt] struct {
	src string // template code that leaves the result in the comparison with r
	ref func(a, b, c T) T
}

func ve2eCases[T ve2eInt]() []ve2eCase[T] {
	return []ve2eCase[T]{
		{"{% if a + b*c == r %}T{% else %}F{% end %}", func(a, b, c T) T { return a + b*c }},
		{"{% if (a - b) * (a + b) == r %}T{% else %}F{% end %}", func(a, b, c T) T { return (a - b) * (a + b) }},
		{"{% if -a ^ b == r %}T{% else %}F{% end %}", func(a, b, c T) T { return -a ^ b }},
		{"{% if a<<3 | b>>2 == r %}T{% else %}F{% end %}", func(a, b, c T) T { return a<<3 | b>>2 }},
		{"{% if a*a*a - b == r %}T{% else %}F{% end %}", func(a, b, c T) T { return a*a*a - b }},
		{"{% if a/3 + b%5 == r %}T{% else %}F{% end %}", func(a, b, c T) T { return a/3 + b%5 }},
		{"{% if a &^ (b | c) == r %}T{% else %}F{% end %}", func(a, b, c T) T { return a &^ (b | c) }},
		{"{% if ^a + 1 == r %}T{% else %}F{% end %}", func(a, b, c T) T { return ^a + 1 }},
		{"{% x := a %}{% x += b %}{% x *= c %}{% if x == r %}T{% else %}F{% end %}", func(a, b, c T) T { x := a; x += b; x *= c; return x }},
		{"{% x := a %}{% if b < c %}{% x = b - c %}{% end %}{% if x == r %}T{% else %}F{% end %}", func(a, b, c T) T {
			x := a
			if b < c {
				x = b - c
			}
			return x
		}},
		{"{% x, y := a, b %}{% x, y = y, x %}{% if x - y == r %}T{% else %}F{% end %}", func(a, b, c T) T { return b - a }},
		{"{% x := a %}{% for i := 0; i < 3; i++ %}{% x = x*b + c %}{% end %}{% if x == r %}T{% else %}F{% end %}", func(a, b, c T) T {
			x := a
			for i := 0; i < 3; i++ {
				x = x*b + c
			}
			return x
		}},
	}
}

func ve2eExpr[T ve2eInt](a, b, c T) {
	cases := ve2eCases[T]()
	cs := cases[vsym_choice(len(cases))]
	r := cs.ref(a, b, c)
	opts := &BuildOptions{Globals: native.Declarations{"a": &a, "b": &b, "c": &c, "r": &r}}
	tmpl, err := BuildTemplate(Files{"index.txt": []byte(cs.src)}, "index.txt", opts)
	vassert(err == nil, "builds")
	var out vbuf
	err = tmpl.Run(&out, nil, nil)
	vassert(err == nil, "runs")
	vassert(string(out.b) == "T", "interpreted-value-equals-go's")
	vreach("end")
}

func vh_c01_e2e_expr_int32_q()  { ve2eExpr(vsym_i32(), vsym_i32(), vsym_i32()) }
func vh_c01_e2e_expr_uint8_q()  { ve2eExpr(vsym_u8(), vsym_u8(), vsym_u8()) }
func vh_c01_e2e_expr_int64_q()  { ve2eExpr(vsym_i64(), vsym_i64(), vsym_i64()) }
func vh_c01_e2e_expr_int_q()    { ve2eExpr(int(vsym_i64()), int(vsym_i64()), int(vsym_i64())) }
func vh_c01_e2e_expr_uint16_q() { ve2eExpr(vsym_u16(), vsym_u16(), vsym_u16()) }
