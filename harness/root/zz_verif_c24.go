package scriggo

// C24: HTMLEscape escapes exactly the five HTML-significant characters.

func vref_htmlescape(s string) string {
	var out []byte
	for i := 0; i < len(s); i++ {
		switch s[i] {
		case '<':
			out = append(out, "&lt;"...)
		case '>':
			out = append(out, "&gt;"...)
		case '&':
			out = append(out, "&amp;"...)
		case '"':
			out = append(out, "&#34;"...)
		case '\'':
			out = append(out, "&#39;"...)
		default:
			out = append(out, s[i])
		}
	}
	return string(out)
}

func vh_c24_htmlescape_q() { vc24(5) }
func vh_c24_htmlescape_t() { vc24(8) }

func vc24(n int) {
	s := vsym_string(n)
	got := string(HTMLEscape(s))
	vassert(got == vref_htmlescape(s), "equals-reference")
}

// length-dependent code paths: a long concrete body with symbolic bytes at
// the start and at the end, for total lengths around powers of two (buffer
// size decisions depend on len(s) and on the escaped length)
func vc24_long(n int) {
	lens := []int{30, 62, 124, 126, 127, 252, 255, 510}
	body := lens[vsym_choice(len(lens))]
	head := vsym_nstring(n)
	tail := vsym_nstring(n)
	mid := make([]byte, body)
	for i := range mid {
		mid[i] = 'a'
	}
	if vsym_bool() {
		// a body made of characters that need escaping (5 output bytes each)
		for i := range mid {
			mid[i] = '"'
		}
	}
	s := head + string(mid) + tail
	got := string(HTMLEscape(s))
	vassert(got == vref_htmlescape(s), "equals-reference-on-long-strings")
}

func vh_c24_long_q() { vc24_long(1) }
func vh_c24_long_t() { vc24_long(2) }
