package scriggo

// C24: HTMLEscape escapes exactly the five HTML-significant characters.

func vref_htmlescape(s string) string {
	var out []byte
	for i := 0; i < len(s); i++ {
		switch s[i] {
		case '<':
			out = append(out, "&lt;"...)
		case '>':
			out = append(out, "&gt;"...)
		case '&':
			out = append(out, "&amp;"...)
		case '"':
			out = append(out, "&#34;"...)
		case '\'':
			out = append(out, "&#39;"...)
		default:
			out = append(out, s[i])
		}
	}
	return string(out)
}

func vh_c24_htmlescape_q() { vc24(5) }
func vh_c24_htmlescape_t() { vc24(8) }

func vc24(n int) {
	s := vsym_string(n)
	got := string(HTMLEscape(s))
	vassert(got == vref_htmlescape(s), "equals-reference")
}
