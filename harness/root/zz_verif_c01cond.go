package scriggo

import "github.com/open2b/scriggo/native"

// C01 (end to end): every shape of condition that the emitter special-cases
// (comparison with zero, with the length of a string on either side, string
// comparisons, constants on either side, negation, && and ||) takes the same
// branch as Go for every operand value, as an if condition and as a for
// condition.

var vcondOps = []string{"==", "!=", "<", "<=", ">", ">="}

func vcmpInt(op string, x, y int) bool {
	switch op {
	case "==":
		return x == y
	case "!=":
		return x != y
	case "<":
		return x < y
	case "<=":
		return x <= y
	case ">":
		return x > y
	}
	return x >= y
}

func vcmpStr(op string, x, y string) bool {
	switch op {
	case "==":
		return x == y
	case "!=":
		return x != y
	case "<":
		return x < y
	case "<=":
		return x <= y
	case ">":
		return x > y
	}
	return x >= y
}

func vc01_e2e_cond(shape int, asFor bool) {
	a, b := int(vsym_i64()), int(vsym_i64())
	s, t := vsym_string(2), vsym_string(2)
	op := vcondOps[vsym_choice(len(vcondOps))]
	var cond string
	var want bool
	switch shape {
	case 0:
		cond, want = "len(s) "+op+" a", vcmpInt(op, len(s), a)
	case 1:
		cond, want = "a "+op+" len(s)", vcmpInt(op, a, len(s))
	case 2:
		cond, want = "len(s) "+op+" 1", vcmpInt(op, len(s), 1)
	case 3:
		cond, want = "1 "+op+" len(s)", vcmpInt(op, 1, len(s))
	case 4:
		cond, want = "a "+op+" 0", vcmpInt(op, a, 0)
	case 5:
		cond, want = "0 "+op+" a", vcmpInt(op, 0, a)
	case 6:
		cond, want = "a "+op+" b", vcmpInt(op, a, b)
	case 7:
		cond, want = "7 "+op+" a", vcmpInt(op, 7, a)
	case 8:
		cond, want = "s "+op+" t", vcmpStr(op, s, t)
	case 9:
		cond, want = "s "+op+" \"\"", vcmpStr(op, s, "")
	case 10:
		cond, want = "\"a\" "+op+" s", vcmpStr(op, "a", s)
	case 11:
		cond, want = "!(a "+op+" b)", !vcmpInt(op, a, b)
	case 12:
		cond, want = "a "+op+" b && len(s) "+op+" len(t)", vcmpInt(op, a, b) && vcmpInt(op, len(s), len(t))
	case 13:
		cond, want = "a "+op+" b || s "+op+" t", vcmpInt(op, a, b) || vcmpStr(op, s, t)
	case 14:
		cond, want = "len(s) "+op+" len(t)", vcmpInt(op, len(s), len(t))
	case 15:
		cond, want = "len(s)+a "+op+" b", vcmpInt(op, len(s)+a, b)
	}
	src := "{% if " + cond + " %}T{% else %}F{% end %}"
	if asFor {
		src = "{% for " + cond + " %}T{% break %}{% end %}"
	}
	opts := &BuildOptions{Globals: native.Declarations{"a": &a, "b": &b, "s": &s, "t": &t}}
	tmpl, err := BuildTemplate(Files{"index.txt": []byte(src)}, "index.txt", opts)
	vassert(err == nil, "builds")
	var out vbuf
	vassert(tmpl.Run(&out, nil, nil) == nil, "runs")
	expect := "F"
	if want {
		expect = "T"
	} else if asFor {
		expect = ""
	}
	vassert(string(out.b) == expect, "condition-takes-go's-branch")
	vreach("end")
}

func vh_c01_e2e_cond_if_q()  { vc01_e2e_cond(vsym_choice(16), false) }
func vh_c01_e2e_cond_for_q() { vc01_e2e_cond(vsym_choice(16), true) }
