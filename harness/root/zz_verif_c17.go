package scriggo

import "github.com/open2b/scriggo/native"

// C17 (end to end): a global declared without a value ("v": (*int)(nil)) and
// given to Run in the variables map is the value that every reference sees,
// at top level, in macros, in function literals and in imported, rendered and
// extended files, whatever the order of first use; a pointer is shared with
// the caller, a value is copied; UsedVars reports it.

type vc17Case struct {
	files map[string]string
	// number of references compared with r, and whether the template adds 1
	// to v (in a macro or function) before the last reference
	writes bool
	want   string // expected output, 'T' per reference that must see the value
}

var vc17Cases = []vc17Case{
	{map[string]string{"index.txt": "{% if v == r %}T{% else %}F{% end %}"}, false, "T"},
	{map[string]string{"index.txt": "{% macro M %}{% if v == r %}T{% else %}F{% end %}{% end %}{{ M() }}{% if v == r %}T{% else %}F{% end %}"}, false, "TT"},
	{map[string]string{"index.txt": "{% if v == r %}T{% else %}F{% end %}{% macro M %}{% if v == r %}T{% else %}F{% end %}{% end %}{{ M() }}"}, false, "TT"},
	{map[string]string{"index.txt": "{% f := func() bool { return v == r } %}{% if f() %}T{% else %}F{% end %}{% if v == r %}T{% else %}F{% end %}"}, false, "TT"},
	{map[string]string{"index.txt": "{% import \"p.txt\" %}{{ P() }}{% if v == r %}T{% else %}F{% end %}", "p.txt": "{% macro P %}{% if v == r %}T{% else %}F{% end %}{% end %}"}, false, "TT"},
	{map[string]string{"index.txt": "{{ render \"p.txt\" }}{% if v == r %}T{% else %}F{% end %}", "p.txt": "{% if v == r %}T{% else %}F{% end %}"}, false, "TT"},
	{map[string]string{"index.txt": "{% extends \"l.txt\" %}{% macro B %}{% if v == r %}T{% else %}F{% end %}{% end %}", "l.txt": "{% if v == r %}T{% else %}F{% end %}{{ B() }}"}, false, "TT"},
	// nested function literals: the inner one refers to the variable after the outer one did
	{map[string]string{"index.txt": "{% f := func() bool { a := v == r; g := func() bool { return v == r }; return a && g() } %}{% if f() %}T{% else %}F{% end %}{% if v == r %}T{% else %}F{% end %}"}, false, "TT"},
	{map[string]string{"index.txt": "{% macro M %}{% a := v == r %}{% g := func() bool { return v == r } %}{% if a && g() %}T{% else %}F{% end %}{% end %}{% if v == r %}T{% else %}F{% end %}{{ M() }}"}, false, "TT"},
	// a write in a macro is seen at top level, and the other way round
	{map[string]string{"index.txt": "{% macro M %}{% v = v + 1 %}{% end %}{{ M() }}{% if v == r + 1 %}T{% else %}F{% end %}"}, true, "T"},
	{map[string]string{"index.txt": "{% macro M %}{% if v == r + 1 %}T{% else %}F{% end %}{% end %}{% v = v + 1 %}{{ M() }}"}, true, "T"},
	{map[string]string{"index.txt": "{% import \"p.txt\" %}{{ P() }}{% if v == r + 1 %}T{% else %}F{% end %}", "p.txt": "{% macro P %}{% v = v + 1 %}{% end %}"}, true, "T"},
}

func vc17_e2e() {
	c := vc17Cases[vsym_choice(len(vc17Cases))]
	x := int(vsym_i8())
	r := x
	fsys := Files{}
	for name, src := range c.files {
		fsys[name] = []byte(src)
	}
	opts := &BuildOptions{Globals: native.Declarations{"v": (*int)(nil), "r": &r}}
	tmpl, err := BuildTemplate(fsys, "index.txt", opts)
	vassert(err == nil, "builds")
	used := 0
	names := tmpl.UsedVars()
	for i, name := range names {
		if name == "v" {
			used++
		}
		vassert(i == 0 || names[i-1] < name, "usedvars-is-sorted-without-duplicates")
	}
	vassert(used == 1, "usedvars-reports-the-variable-once")
	byPointer := vsym_bool()
	vars := map[string]any{"v": x}
	if byPointer {
		vars = map[string]any{"v": &x}
	}
	var out vbuf
	err, rec := vrunRecover3(tmpl, &out, vars)
	vassert(rec == nil, "no-host-panic")
	vassert(err == nil, "runs")
	vassert(string(out.b) == c.want, "every-reference-sees-the-value-given-to-run")
	if c.writes && byPointer {
		vassert(x == r+1, "a-pointer-value-is-shared-with-the-caller")
	} else {
		vassert(x == r, "a-non-pointer-value-is-copied")
	}
	vreach("end")
}

func vrunRecover3(t *Template, w *vbuf, vars map[string]any) (err error, rec any) {
	defer func() { rec = recover() }()
	err = t.Run(w, vars, nil)
	return
}

func vh_c17_e2e_q() { vc17_e2e() }
