package scriggo

import "github.com/open2b/scriggo/native"

// C19 (build-time part, end to end): a program can import only the packages
// the importer returns, code can refer only to the globals that are declared,
// and the go statement builds only when allowed. The import path and the
// identifier are symbolic.

func vc19_import() {
	path := vsym_string(2)
	for i := 0; i < len(path); i++ {
		vassume(path[i] != '"' && path[i] != '\\' && path[i] != '\n' && path[i] != '\r' && path[i] >= 0x20 && path[i] < 0x7f)
	}
	called := 0
	pkgs := native.Packages{"ab": native.Package{Name: "ab", Declarations: native.Declarations{"F": func() { called++ }}}}
	src := "package main\nimport _ \"" + path + "\"\nfunc main() {}\n"
	_, err := Build(Files{"main.go": []byte(src)}, &BuildOptions{Packages: pkgs})
	if path == "ab" {
		vassert(err == nil, "supplied-package-can-be-imported")
		vreach("imported")
	} else {
		_, ok := err.(*BuildError)
		vassert(ok, "any-other-import-fails-at-build-time")
		vreach("rejected")
	}
	// without an importer nothing can be imported
	_, err = Build(Files{"main.go": []byte(src)}, nil)
	_, ok := err.(*BuildError)
	vassert(ok, "no-importer-no-import")
	vassert(called == 0, "building-executes-no-host-function")
}

func vc19_global() {
	id := vsym_string(2)
	vassume(len(id) > 0)
	for i := 0; i < len(id); i++ {
		c := id[i]
		vassume('a' <= c && c <= 'z' || 'A' <= c && c <= 'Z' || c == '_' || (i > 0 && '0' <= c && c <= '9'))
	}
	vassume(id != "_")
	x := 7
	src := "{% _ = " + id + " %}"
	_, err := BuildTemplate(Files{"index.txt": []byte(src)}, "index.txt", &BuildOptions{Globals: native.Declarations{"ab": &x}})
	if id == "ab" {
		vassert(err == nil, "declared-global-can-be-referred-to")
		vreach("declared")
	} else {
		_, ok := err.(*BuildError)
		vassert(ok, "undeclared-name-is-rejected-at-build-time")
		vreach("rejected")
	}
}

func vc19_go() {
	allow := vsym_bool()
	prog := vsym_bool()
	// the call of the go statement: a function, a function literal, builtins
	calls := []string{"f()", "func() {}()", "print(1)", "println()", "close(ch)", "panic(1)", "recover()", "delete(m, 1)", "copy(sl, sl)"}
	call := calls[vsym_choice(len(calls))]
	var err error
	if prog {
		src := "package main\nfunc f() {}\nfunc main() {\n\tch := make(chan int)\n\tm := map[int]int{}\n\tsl := []int{1}\n\t_, _, _ = ch, m, sl\n\tgo " + call + "\n}\n"
		_, err = Build(Files{"main.go": []byte(src)}, &BuildOptions{AllowGoStmt: allow})
	} else {
		src := "{% f := func() {} %}{% ch := make(chan int) %}{% m := map[int]int{} %}{% sl := []int{1} %}{% _, _, _, _ = f, ch, m, sl %}{% go " + call + " %}"
		_, err = BuildTemplate(Files{"index.txt": []byte(src)}, "index.txt", &BuildOptions{AllowGoStmt: allow})
	}
	if allow {
		vassert(err == nil, "go-statement-builds-when-allowed")
	} else {
		_, ok := err.(*BuildError)
		vassert(ok, "go-statement-is-rejected-unless-allowed")
	}
	vreach("end")
}

func vh_c19_import_q() { vc19_import() }
func vh_c19_global_q() { vc19_global() }
func vh_c19_go_q()     { vc19_go() }
