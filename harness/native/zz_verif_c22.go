package native

import "errors"

// C22: native package and importer lookups follow their documented contracts.
//
// Packages hold arbitrary subsets of a small name pool with arbitrary
// (symbolic) declared values; maps are iterated in every order; the callback
// fails (with StopLookup or with an error) at an arbitrary call index.

var vErrCB = errors.New("verif: callback error")
var vErrImp1 = errors.New("verif: importer error 1")
var vErrImp2 = errors.New("verif: importer error 2")
var vErrImp3 = errors.New("verif: importer error 3")

var vnames = []string{"a", "b", "c"}

// vpkg builds a Package over the first n pool names, each present or not,
// with symbolic non-nil declared values.
func vpkg(name string, n int) Package {
	d := Declarations{}
	for i := 0; i < n; i++ {
		if vsym_bool() {
			d[vnames[i]] = vsym_int()
		}
	}
	return Package{Name: name, Declarations: d}
}

// vordered is an ImportablePackage that follows the documented contract and
// visits its declarations in a fixed order (a second implementation, so that
// CombinedPackage is not only exercised through Package).
type vordered struct {
	name  string
	names []string
	decls []Declaration
}

func (p vordered) PackageName() string { return p.name }
func (p vordered) Lookup(name string) Declaration {
	for i, n := range p.names {
		if n == name {
			return p.decls[i]
		}
	}
	return nil
}
func (p vordered) LookupFunc(f LookupFunc) error {
	for i, n := range p.names {
		if err := f(n, p.decls[i]); err != nil {
			if err == StopLookup {
				return nil
			}
			return err
		}
	}
	return nil
}

func vorderedOf(p Package, n int) vordered {
	o := vordered{name: p.Name}
	for i := 0; i < n; i++ {
		if d, ok := p.Declarations[vnames[i]]; ok {
			o.names = append(o.names, vnames[i])
			o.decls = append(o.decls, d)
		}
	}
	return o
}

type vcallback struct {
	k      int // 1-based index of the failing call
	mode   int // 0: StopLookup, 1: error
	calls  int
	after  int
	failed bool
	names  []string
	decls  []Declaration
}

func (cb *vcallback) f(name string, d Declaration) error {
	cb.calls++
	if cb.failed {
		cb.after++
	}
	cb.names = append(cb.names, name)
	cb.decls = append(cb.decls, d)
	if cb.calls == cb.k {
		cb.failed = true
		if cb.mode == 0 {
			return StopLookup
		}
		return vErrCB
	}
	return nil
}

func (cb *vcallback) count(name string) int {
	n := 0
	for _, x := range cb.names {
		if x == name {
			n++
		}
	}
	return n
}

// Package.LookupFunc and Package.Lookup
func vc22_package(n int) {
	vopt_maporder(true)
	p := vpkg("p", n)
	total := len(p.Declarations)
	cb := &vcallback{k: vsym_int(), mode: vsym_choice(2)}
	vassume(cb.k >= 1)
	err := p.LookupFunc(cb.f)
	vassert(cb.after == 0, "no-call-after-the-failing-one")
	for i := range cb.names {
		d, ok := p.Declarations[cb.names[i]]
		vassert(ok && d == cb.decls[i], "callback-gets-a-declaration-of-the-package")
		vassert(cb.count(cb.names[i]) == 1, "once-per-name")
	}
	if cb.k <= total {
		vassert(cb.calls == cb.k, "stops-at-the-first-error")
		if cb.mode == 0 {
			vassert(err == nil, "StopLookup-gives-nil")
		} else {
			vassert(err == vErrCB, "callback-error-returned")
		}
	} else {
		vassert(cb.calls == total && err == nil, "all-declarations-visited")
	}
	for i := 0; i < n; i++ {
		d, ok := p.Declarations[vnames[i]]
		got := p.Lookup(vnames[i])
		if ok {
			vassert(got == d, "lookup-present")
		} else {
			vassert(got == nil, "lookup-absent")
		}
	}
	vassert(p.PackageName() == "p", "package-name")
}

// CombinedPackage over np packages with a pool of n names. kinds selects the
// implementation of each member: Package or the ordered reference package.
func vc22_combined(np, n int) {
	vopt_maporder(true)
	var members CombinedPackage
	var pkgs []Package
	for i := 0; i < np; i++ {
		p := vpkg(string(rune('p'+i)), n)
		pkgs = append(pkgs, p)
		if vsym_bool() {
			members = append(members, p)
		} else {
			members = append(members, vorderedOf(p, n))
		}
	}
	// reference: first declaration and owning package of every name
	firstPkg := map[string]int{}
	firstDecl := map[string]Declaration{}
	for i, p := range pkgs {
		for j := 0; j < n; j++ {
			if d, ok := p.Declarations[vnames[j]]; ok {
				if _, seen := firstPkg[vnames[j]]; !seen {
					firstPkg[vnames[j]] = i
					firstDecl[vnames[j]] = d
				}
			}
		}
	}
	total := len(firstPkg)
	// Lookup
	for j := 0; j < n; j++ {
		got := members.Lookup(vnames[j])
		if d, ok := firstDecl[vnames[j]]; ok {
			vassert(got == d, "combined-lookup-returns-first-package-declaration")
		} else {
			vassert(got == nil, "combined-lookup-absent")
		}
	}
	if np > 0 {
		vassert(members.PackageName() == "p", "combined-name-is-first-package-name")
	} else {
		vassert(members.PackageName() == "", "combined-name-empty")
	}
	// LookupFunc
	cb := &vcallback{k: vsym_int(), mode: vsym_choice(2)}
	vassume(cb.k >= 1)
	err := members.LookupFunc(cb.f)
	vassert(cb.after == 0, "no-call-after-the-failing-one")
	last := 0
	for i := range cb.names {
		d, ok := firstDecl[cb.names[i]]
		vassert(ok && d == cb.decls[i], "first-occurrence-only")
		vassert(cb.count(cb.names[i]) == 1, "once-per-distinct-name")
		vassert(firstPkg[cb.names[i]] >= last, "packages-visited-in-order")
		last = firstPkg[cb.names[i]]
	}
	if cb.k <= total {
		vassert(cb.calls == cb.k, "stops-at-the-first-error")
		if cb.mode == 0 {
			vassert(err == nil, "StopLookup-gives-nil")
		} else {
			vassert(err == vErrCB, "callback-error-returned")
		}
	} else {
		vassert(cb.calls == total && err == nil, "all-distinct-names-visited")
	}
}

type vimporter struct {
	p     ImportablePackage
	err   error
	calls *[]int
	id    int
	want  string
	okp   *bool
}

func (im vimporter) Import(path string) (ImportablePackage, error) {
	*im.calls = append(*im.calls, im.id)
	if path != im.want {
		*im.okp = false
	}
	return im.p, im.err
}

// CombinedImporter: the first package or error, in order; later importers are
// not consulted.
func vc22_importer(n int) {
	var calls []int
	pathOK := true
	errs := []error{vErrImp1, vErrImp2, vErrImp3}
	var imps CombinedImporter
	wantIdx := -1
	var wantP ImportablePackage
	var wantE error
	cnt := vsym_choice(n + 1)
	for i := 0; i < cnt; i++ {
		im := vimporter{calls: &calls, id: i, want: "x/y", okp: &pathOK}
		switch vsym_choice(4) {
		case 0: // package does not exist
		case 1:
			im.p = Package{Name: string(rune('p' + i))}
		case 2:
			im.err = errs[i]
		case 3:
			im.p = Package{Name: string(rune('p' + i))}
			im.err = errs[i]
		}
		if wantIdx < 0 && (im.p != nil || im.err != nil) {
			wantIdx, wantP, wantE = i, im.p, im.err
		}
		if vsym_bool() {
			imps = append(imps, im)
		} else {
			// a Packages map importer as member
			if im.p != nil && im.err == nil {
				imps = append(imps, vcounting{Packages{"x/y": im.p}, &calls, i})
			} else if im.p == nil && im.err == nil {
				imps = append(imps, vcounting{Packages{"x/z": Package{Name: "other"}}, &calls, i})
			} else {
				imps = append(imps, im)
			}
		}
	}
	p, err := imps.Import("x/y")
	vassert(pathOK, "path-passed-through")
	if wantIdx < 0 {
		vassert(p == nil && err == nil, "nothing-found-gives-nil-nil")
		vassert(len(calls) == cnt, "every-importer-consulted")
	} else {
		vassert(err == wantE, "first-error-in-order")
		if wantP == nil {
			vassert(p == nil, "no-package-with-first-error")
		} else {
			vassert(p != nil && p.PackageName() == wantP.PackageName(), "first-package-in-order")
		}
		vassert(len(calls) == wantIdx+1, "later-importers-not-consulted")
	}
	for i := range calls {
		vassert(calls[i] == i, "importers-consulted-in-order")
	}
}

type vcounting struct {
	pp    Packages
	calls *[]int
	id    int
}

func (c vcounting) Import(path string) (ImportablePackage, error) {
	*c.calls = append(*c.calls, c.id)
	return c.pp.Import(path)
}

func vh_c22_package_q()   { vc22_package(3) }
func vh_c22_combined2_q() { vc22_combined(2, 2) }
func vh_c22_importer_q()  { vc22_importer(3) }
func vh_c22_combined0_q() { vc22_combined(0, 1) }
func vh_c22_combined3_t() { vc22_combined(3, 2) }
func vh_c22_combined23_t() { vc22_combined(2, 3) }
func vh_c22_importer_t()  { vc22_importer(3) }
