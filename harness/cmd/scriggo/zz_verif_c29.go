package main

import (
	"bytes"
	"net/url"
)

// C29 (reduced): link rewriting never panics, its replacement ranges are
// well formed and disjoint, applying replacements preserves every byte
// outside the ranges, escaping is undone by unescaping, and lines inside
// fenced or indented code yield no replacement.

func vreplacer() linkDestinationReplacer {
	return linkDestinationReplacer{base: &url.URL{Scheme: "https", Host: "example.com", Path: "/"}, dir: "docs"}
}

func vc29_collect(prefix string, n int, suffix string) {
	sym := vsym_bytes(n)
	src := append(append([]byte(prefix), sym...), suffix...)
	r := vreplacer()
	reps := r.collectReplacements(src)
	prevStop := 0
	// ranges in source order (collectReplacements walks the lines in order)
	for _, rp := range reps {
		vassert(0 <= rp.start && rp.start < rp.stop && rp.stop <= len(src), "replacement-range-inside-the-source")
		vassert(rp.start >= prevStop, "replacements-disjoint-and-ordered")
		prevStop = rp.stop
		for i := rp.start; i < rp.stop; i++ {
			vassert(src[i] != '\n', "replacement-inside-one-line")
		}
	}
	var dst bytes.Buffer
	vassert(r.replace(&dst, src) == nil, "replace-no-error")
	out := dst.Bytes()
	// frame: the output is the source with exactly the ranges replaced
	pos, o := 0, 0
	for _, rp := range reps {
		for ; pos < rp.start; pos++ {
			vassert(o < len(out) && out[o] == src[pos], "bytes-outside-destinations-unchanged")
			o++
		}
		vassert(o+len(rp.repl) <= len(out) && string(out[o:o+len(rp.repl)]) == rp.repl, "replacement-text-in-place")
		o += len(rp.repl)
		pos = rp.stop
	}
	for ; pos < len(src); pos++ {
		vassert(o < len(out) && out[o] == src[pos], "bytes-outside-destinations-unchanged")
		o++
	}
	vassert(o == len(out), "nothing-appended")
	if len(reps) > 0 {
		vreach("some-replacement")
	}
	vreach("end")
}

// the frame property of applyReplacements for arbitrary well-formed lists
func vc29_apply(n int) {
	src := vsym_bytes(n)
	k := vsym_choice(3)
	var reps []replacement
	prev := 0
	for i := 0; i < k; i++ {
		a, b := vsym_int(), vsym_int()
		vassume(prev <= a && a < b && b <= len(src))
		reps = append(reps, replacement{start: a, stop: b, repl: vsym_nstring(1 + i)})
		prev = b
	}
	var want []byte
	p := 0
	for _, rp := range reps {
		want = append(want, src[p:rp.start]...)
		want = append(want, rp.repl...)
		p = rp.stop
	}
	want = append(want, src[p:]...)
	// applied in any order of the list
	if k == 2 && vsym_bool() {
		reps[0], reps[1] = reps[1], reps[0]
	}
	var dst bytes.Buffer
	vreplacer().applyReplacements(&dst, src, reps)
	vassert(string(dst.Bytes()) == string(want), "apply-replacements-frame")
}

// escaping a destination is undone by unescaping (inputs never contain a
// non-breaking space: the escaper's input is the String of a URL built from an
// already unescaped destination, in which C2 A0 has been replaced)
func vc29_escape(n int) {
	s := vsym_string(n)
	for i := 0; i+1 < len(s); i++ {
		vassume(!(s[i] == 0xc2 && s[i+1] == 0xa0))
	}
	e := markdownURLEscape(s)
	u, err := markdownUnescape([]byte(e))
	vassert(err == nil && u == s, "unescape-undoes-escape")
	// every backslash in the escaped form that precedes an escapable byte (or ends the string) is itself escaped
	for i := 0; i < len(e); i++ {
		if e[i] == '\\' {
			vassert(i+1 < len(e), "no-trailing-single-backslash")
			if isMarkdownEscapable(e[i+1]) {
				i++
			}
		}
	}
}

// code: no replacement comes from inside a fenced or an indented code block
func vc29_code(n int) {
	sym := vsym_bytes(n)
	for _, c := range sym {
		vassume(c != '\n' && c != '`' && c != '~')
	}
	r := vreplacer()
	fenced := append(append([]byte("```\n[a]("), sym...), ")\n```\n"...)
	vassert(len(r.collectReplacements(fenced)) == 0, "no-replacement-inside-a-fence")
	indented := append(append([]byte("    [a]("), sym...), ')')
	vassert(len(r.collectReplacements(indented)) == 0, "no-replacement-inside-indented-code")
	span := append(append([]byte("`[a]("), sym...), ")`"...)
	vassert(len(r.collectReplacements(span)) == 0, "no-replacement-inside-a-code-span")
}

// a link-looking text inside a raw HTML block, after a nested element of the
// same name has been closed, is still inside raw HTML: nothing is rewritten
func vc29_html_nested() {
	tag := []string{"div", "ul", "table", "section"}[vsym_choice(4)]
	fill := vsym_bytes(2)
	for _, c := range fill {
		vassume(c == '<' || c == '/' || c == '>' || c == ' ' || c == 'a' || c == '[' || c == '(')
	}
	src := []byte("<" + tag + ">\n<" + tag + ">\nx" + string(fill) + "\n</" + tag + ">\n[a](api)\n</" + tag + ">\n")
	r := vreplacer()
	vassert(len(r.collectReplacements(src)) == 0, "destination-inside-raw-html-untouched")
	vreach("end")
}

// links may not contain other links (CommonMark): in "[o [i](in)](out)" only
// the inner destination is a link destination
func vc29_nested_link() {
	fill := vsym_bytes(1)
	for _, c := range fill {
		vassume(c == ' ' || c == 'a' || c == '!' || c == '*')
	}
	src := []byte("[o" + string(fill) + "[i](in)](out)\n")
	r := vreplacer()
	reps := r.collectReplacements(src)
	vassert(len(reps) == 1, "only-the-inner-link-has-a-destination")
	vassert(string(src[reps[0].start:reps[0].stop]) == "in", "the-inner-destination")
	vreach("end")
}

func vh_c29_html_nested_q()  { vc29_html_nested() }
func vh_c29_nested_link_q()  { vc29_nested_link() }
func vh_c29_collect_q()      { vc29_collect("", 4, "") }
func vh_c29_collect_link_q() { vc29_collect("[a](", 2, ")") }
func vh_c29_collect_ref_q()  { vc29_collect("[a]: ", 2, "") }
func vh_c29_apply_q()        { vc29_apply(4) }
func vh_c29_escape_q()       { vc29_escape(4) }
func vh_c29_code_q()         { vc29_code(2) }

func vh_c29_collect_t()      { vc29_collect("", 5, "") }
func vh_c29_collect_link_t() { vc29_collect("[a](", 3, ") x") }
func vh_c29_collect_ref_t()  { vc29_collect("[a]: ", 3, "\n") }
func vh_c29_collect_html_t() { vc29_collect("<pre>", 3, "</pre>[a](b)") }
func vh_c29_apply_t()        { vc29_apply(6) }
func vh_c29_escape_t()       { vc29_escape(7) }
func vh_c29_code_t()         { vc29_code(3) }
