package compiler

import (
	"errors"
	"reflect"

	"github.com/open2b/scriggo/ast"
	"github.com/open2b/scriggo/internal/runtime"
	"github.com/open2b/scriggo/native"
)

// C09 (abstracted): a show accepted by the type checker never fails at run
// time with a "cannot show" error for a value of that static type. The two
// hand-maintained tables (checkShow* in the checker, toString/showIn* in the
// renderer) are both executed for a catalogue of representative static types
// in all 14 contexts; values of the basic kinds are symbolic.

type vS struct{ s string }

func (v vS) String() string { return v.s }

type vES struct{ s string }

func (v vES) String(native.Env) string { return v.s }

type vErr struct{ s string }

func (v vErr) Error() string { return v.s }

type vHS struct{ s string }

func (v vHS) HTML() native.HTML { return native.HTML(v.s) }

type vCS struct{ s string }

func (v vCS) CSS() native.CSS { return native.CSS(v.s) }

type vJS struct{ s string }

func (v vJS) JS() native.JS { return native.JS(v.s) }

type vJSON struct{ s string }

func (v vJSON) JSON() native.JSON { return native.JSON(v.s) }

type vMS struct{ s string }

func (v vMS) Markdown() native.Markdown { return native.Markdown(v.s) }

type vPlain struct{ A int }
type vNamedInt int
type vNamedString string
type vNamedBytes []byte

const vnumTypes = 36

// vsample returns a value of the i-th catalogue type; scalars are symbolic.
func vsample(i int) any {
	switch i {
	case 0:
		return vsym_bool()
	case 1:
		return int(vsym_i64())
	case 2:
		return vsym_i8()
	case 3:
		return vsym_i16()
	case 4:
		return vsym_i32()
	case 5:
		return vsym_i64()
	case 6:
		return uint(vsym_u64())
	case 7:
		return vsym_u8()
	case 8:
		return vsym_u16()
	case 9:
		return vsym_u32()
	case 10:
		return vsym_u64()
	case 11:
		return uintptr(vsym_u64())
	case 12:
		return float32(1.5)
	case 13:
		return float64(2.25)
	case 14:
		return float32(-0.5) // complex kinds are not in the catalogue (the engine has no complex arithmetic)
	case 15:
		return float64(1e21)
	case 16:
		return vsym_string(1)
	case 17:
		return vsym_bytes(1)
	case 18:
		return vS{vsym_string(1)}
	case 19:
		return vES{"e"}
	case 20:
		return vErr{vsym_string(1)}
	case 21:
		return vHS{"h"}
	case 22:
		return vCS{"c"}
	case 23:
		return vJS{"1"}
	case 24:
		return vJSON{"1"}
	case 25:
		return vMS{"m"}
	case 26:
		return vPlain{1}
	case 27:
		return vNamedInt(vsym_i64())
	case 28:
		return vNamedString(vsym_string(1))
	case 29:
		return vNamedBytes(vsym_bytes(1))
	case 30:
		return []int{1, 2}
	case 31:
		return [2]string{"a", "b"}
	case 32:
		x := 3
		return &x
	case 33:
		return func() {}
	case 34:
		return make(chan int)
	case 35:
		return errors.New("e")
	}
	return nil
}

func visCannotShow(err error) bool {
	if err == nil {
		return false
	}
	s := err.Error()
	return len(s) >= 11 && s[:11] == "cannot show"
}

func vc09(ctx ast.Context) {
	i := vsym_choice(vnumTypes)
	v := vsample(i)
	t := reflect.TypeOf(v)
	if checkShow(t, ctx) != nil {
		vreach("rejected")
		return
	}
	err := runtime.VShow(v, int(ctx))
	vassert(!visCannotShow(err), "statically-accepted-show-does-not-fail-with-cannot-show")
	vreach("accepted")
}

func vh_c09_text_q()     { vc09(ast.ContextText) }
func vh_c09_html_q()     { vc09(ast.ContextHTML) }
func vh_c09_css_q()      { vc09(ast.ContextCSS) }
func vh_c09_js_q()       { vc09(ast.ContextJS) }
func vh_c09_json_q()     { vc09(ast.ContextJSON) }
func vh_c09_md_q()       { vc09(ast.ContextMarkdown) }
func vh_c09_tag_q()      { vc09(ast.ContextTag) }
func vh_c09_attrq_q()    { vc09(ast.ContextQuotedAttr) }
func vh_c09_attru_q()    { vc09(ast.ContextUnquotedAttr) }
func vh_c09_cssstr_q()   { vc09(ast.ContextCSSString) }
func vh_c09_jsstr_q()    { vc09(ast.ContextJSString) }
func vh_c09_jsonstr_q()  { vc09(ast.ContextJSONString) }
func vh_c09_tabcode_q()  { vc09(ast.ContextTabCodeBlock) }
func vh_c09_spcode_q()   { vc09(ast.ContextSpacesCodeBlock) }
