package compiler

import (
	"unicode/utf8"

	"github.com/open2b/scriggo/ast"
)

// Shared lexer driver for C04 (no crash, no hang, channel closed), C15 (text
// tokens verbatim, tokens tile the source) and C21 (positions).

const (
	vchkNoPanic = 1 << iota
	vchkTiling
	vchkPos
	vchkNoSyntax // with vchkTiling: also no template syntax inside text tokens
)

// vlexAll scans src and returns every token; the lexer goroutine is run to
// completion by the engine at the go statement (the lexer never receives, so
// its behaviour does not depend on the consumer).
func vlexAll(src []byte, format ast.Format, program bool, noParseShow bool) ([]token, error) {
	var lex *lexer
	if program {
		lex = scanProgram(src)
	} else {
		lex = scanTemplate(src, format, noParseShow)
	}
	var toks []token
	for tok := range lex.Tokens() {
		toks = append(toks, tok)
	}
	return toks, lex.error()
}

// vlineCol is the reference position of an offset in a plain source: lines
// are separated by '\n'; the column counts characters since the line start.
func vlineCol(src []byte, off int) (int, int) {
	line, col := 1, 1
	for i := 0; i < off && i < len(src); i++ {
		c := src[i]
		if c == '\n' {
			line++
			col = 1
		} else if c < 0x80 || c >= 0xC0 {
			col++
		}
	}
	return line, col
}

// vlex scans prefix followed by up to n arbitrary bytes and checks what checks selects.
func vlex(format ast.Format, program bool, prefix string, n int, checks int) {
	vlex3(format, program, prefix, "", n, checks)
}

func vlex3(format ast.Format, program bool, prefix, suffix string, n int, checks int) {
	sym := vsym_bytes(n)
	src := append(append([]byte(prefix), sym...), suffix...)
	toks, err := vlexAll(src, format, program, false)
	if checks&vchkPos != 0 {
		vlexOffsets(src, toks, err)
		if vplainSource(sym) {
			vlexPositions(src, toks, err)
		}
	}
	if checks&vchkTiling != 0 {
		vlexMarkdown = format == ast.FormatMarkdown
		vlexSyntaxCheck = checks&vchkNoSyntax != 0
		vlexTiling(src, toks, err, program)
	}
	vreach("end")
}

// vplainSource reports whether b is valid UTF-8 without carriage returns and
// byte order marks: the sources for which "line and column of an offset" is
// defined without reference to the implementation (the lexer folds "\n\r"
// into one line break in templates, skips a leading BOM and counts invalid
// bytes in context-dependent ways; none of that is documented).
func vplainSource(b []byte) bool {
	for i := 0; i < len(b); {
		r, size := utf8.DecodeRune(b[i:])
		if r == utf8.RuneError && size <= 1 {
			return false
		}
		if r == '\r' || r == 0xFEFF {
			return false
		}
		i += size
	}
	return true
}

// C21: every offset lies within the file (all sources).
func vlexOffsets(src []byte, toks []token, err error) {
	for _, tok := range toks {
		p := tok.pos
		vassert(0 <= p.Start && p.Start <= len(src), "token-start-inside-file")
		if len(tok.txt) > 0 {
			vassert(p.End < len(src) && p.Start <= p.End, "token-end-inside-file")
		} else {
			vassert(p.End == p.Start, "empty-token-end-is-start")
		}
		vassert(p.Line >= 1 && p.Column >= 1, "token-line-column-positive")
	}
	if se, ok := err.(*SyntaxError); ok {
		p := se.pos
		vassert(0 <= p.Start && p.Start <= len(src) && p.Start <= p.End+1 && p.End <= len(src), "error-offset-inside-file")
		vassert(p.Line >= 1 && p.Column >= 1, "error-line-column-positive")
	}
}

// C21: line and column are those of the start offset (plain sources).
func vlexPositions(src []byte, toks []token, err error) {
	for _, tok := range toks {
		p := tok.pos
		if tok.typ == tokenSemicolon && len(tok.txt) == 0 {
			continue // automatically inserted semicolon: synthetic position (documented in emitAtLineColumn)
		}
		line, col := vlineCol(src, p.Start)
		vassert(p.Line == line && p.Column == col, "token-line-column-of-start-offset: "+tok.typ.String())
	}
	if se, ok := err.(*SyntaxError); ok {
		p := se.pos
		line, col := vlineCol(src, p.Start)
		vassert(p.Line == line && p.Column == col, "error-line-column-of-offset: "+se.msg)
	}
}

func visCodeStart(t tokenTyp) bool {
	return t == tokenLeftBraces || t == tokenStartStatement || t == tokenStartStatements
}

func visCodeEnd(t tokenTyp) bool {
	return t == tokenRightBraces || t == tokenEndStatement || t == tokenEndStatements
}

// C15 (lexer part): token texts are verbatim slices of the source, tokens do
// not overlap, and outside code ({{ }}, {% %}, {%% %%}) the tokens tile the
// source: no byte of template text is dropped or duplicated.
func vlexTiling(src []byte, toks []token, err error, program bool) {
	prevEnd := -1
	for _, tok := range toks {
		if len(tok.txt) == 0 {
			continue
		}
		p := tok.pos
		vassert(p.Start >= 0 && p.End < len(src) && p.End-p.Start+1 == len(tok.txt), "token-extent")
		vassert(string(src[p.Start:p.End+1]) == string(tok.txt), "token-text-verbatim")
		vassert(p.Start > prevEnd, "tokens-do-not-overlap")
		prevEnd = p.End
	}
	if program {
		return
	}
	inCode := false
	next := 0 // offset where the next token outside code must start
	for _, tok := range toks {
		if len(tok.txt) == 0 {
			continue
		}
		p := tok.pos
		if !inCode {
			vassert(p.Start == next, "template-text-tiles-the-source")
			vassert(tok.typ == tokenText || tok.typ == tokenComment || tok.typ == tokenShebangLine || visCodeStart(tok.typ), "only-text-comment-or-opener-outside-code")
		}
		if visCodeStart(tok.typ) {
			inCode = true
		} else if visCodeEnd(tok.typ) {
			inCode = false
		}
		next = p.End + 1
	}
	if err == nil {
		vassert(!inCode, "code-closed-at-end-without-error")
		vassert(next == len(src), "tokens-cover-the-source")
		if vlexSyntaxCheck {
			vlexNoSyntaxInText(toks)
		}
	}
}

// C15: "the only text removed is template syntax itself" also means that
// template syntax is never passed through as text: in a source that scans
// without error, a text token contains no "{{", "{%" or "{#" unless it is the
// content of a raw block.
//
// In Markdown a backslash escapes the character that follows it (the lexer
// implements CommonMark's backslash escapes on purpose), so there "\{" is text.
var vlexMarkdown bool

// vlexSyntaxCheck enables the check below (quick sizes only: it doubles the
// number of symbolic byte tests per path).
var vlexSyntaxCheck bool

func vlexNoSyntaxInText(toks []token) {
	rawStmt, afterRaw := false, false
	for _, tok := range toks {
		switch {
		case tok.typ == tokenRaw:
			rawStmt = true
		case visCodeEnd(tok.typ):
			afterRaw, rawStmt = rawStmt, false
		case tok.typ == tokenText:
			if !afterRaw {
				for i := 0; i+1 < len(tok.txt); i++ {
					if tok.txt[i] == '<' && len(tok.txt)-i >= 9 && string(tok.txt[i:i+9]) == "<![CDATA[" {
						break // a CDATA section is passed through unparsed, by design
					}
					if tok.txt[i] == '{' && !(vlexMarkdown && i > 0 && tok.txt[i-1] == '\\') {
						c := tok.txt[i+1]
						vassert(c != '{' && c != '%' && c != '#', "no-template-syntax-inside-text")
					}
				}
			}
			afterRaw = false
		default:
			if !visCodeStart(tok.typ) || !afterRaw {
				afterRaw = false
			}
		}
	}
}

// C15: a raw block ends at its {% end %} whatever the content is: the source
// "{% raw %}" + content + "{% end %}" scans without error and ends with the
// end statement (content: "{%" followed by arbitrary bytes).
func vlexRawEnd(n int) {
	sym := vsym_bytes(n)
	lead := []string{"", "{%", "x{% ", "{"}[vsym_choice(4)]
	src := append(append([]byte("{% raw %}"+lead), sym...), "{% end %}"...)
	toks, err := vlexAll(src, ast.FormatHTML, false, false)
	vassert(err == nil, "raw-block-with-end-scans")
	k := len(toks)
	vassert(k >= 4 && toks[k-1].typ == tokenEOF && toks[k-2].typ == tokenEndStatement && toks[k-3].typ == tokenEnd && toks[k-4].typ == tokenStartStatement, "raw-block-ends-at-its-end-statement")
	vassert(toks[k-4].pos.Start == len(src)-len("{% end %}"), "end-statement-is-the-last-one")
	vreach("end")
}

type vseed struct {
	format  ast.Format
	program bool
	prefix  string
	suffix  string
}

// Seeds put the lexer into a deep state before the symbolic bytes.
var vtextSeeds = []vseed{
	{ast.FormatHTML, false, "<a href=\"", ""},
	{ast.FormatHTML, false, "<a href=", ""},
	{ast.FormatHTML, false, "<script>", ""},
	{ast.FormatHTML, false, "<script type=\"", ""},
	{ast.FormatHTML, false, "<style>", ""},
	{ast.FormatHTML, false, "<!--", ""},
	{ast.FormatHTML, false, "<![CDATA[", ""},
	{ast.FormatHTML, false, "<a b", ""},
	{ast.FormatHTML, false, "#!", ""},
	{ast.FormatHTML, false, "{% raw %}", ""},
	{ast.FormatHTML, false, "{% raw x %}", "{% end x %}"},
	{ast.FormatHTML, false, "{# ", ""},
	{ast.FormatHTML, false, "<script>\"", ""},
	{ast.FormatHTML, false, "<style>'", ""},
	{ast.FormatHTML, false, "<script></scri", ""},
	{ast.FormatHTML, false, "<style></sty", ""},
	{ast.FormatHTML, false, "<script>'</scri", ""},
	{ast.FormatHTML, false, "<script type=\"text/{{ a }}", ""},
	{ast.FormatHTML, false, "<script type={{ a }}", ""},
	{ast.FormatHTML, false, "<style type=\"{{ a }}", ""},
	{ast.FormatHTML, false, "<a href=\"{{ a }}", ""},
	{ast.FormatHTML, false, "<p class={{ a }}", ""},
	{ast.FormatMarkdown, false, "http://", ""},
	{ast.FormatMarkdown, false, "    ", ""},
	{ast.FormatMarkdown, false, "\t", ""},
	{ast.FormatMarkdown, false, "a\n\t", ""},
	{ast.FormatJS, false, "\"", ""},
	{ast.FormatJS, false, "\"\\", "{{ a }}\""},
	{ast.FormatHTML, false, "<script>'\\", "{{ a }}'"},
	{ast.FormatCSS, false, "'\\", "{{ a }}'"},
	{ast.FormatJSON, false, "\"\\", "{{ a }}\""},
	{ast.FormatCSS, false, "'", ""},
	{ast.FormatJSON, false, "\"", ""},
}

var vcodeSeeds = []vseed{
	{ast.FormatHTML, false, "{{ ", ""},
	{ast.FormatHTML, false, "{{ ", " }}"},
	{ast.FormatHTML, false, "{% ", " %}"},
	{ast.FormatHTML, false, "{%% ", " %%}"},
	{ast.FormatHTML, false, "{{ \"", "\" }}"},
	{ast.FormatHTML, false, "{{ '", "' }}"},
	{ast.FormatHTML, false, "{{ 0", " }}"},
	{ast.FormatHTML, false, "{{ a /*", "*/ }}"},
	{ast.FormatText, true, "a ", "\n"},
	{ast.FormatText, true, "\"\\", "\""},
	{ast.FormatText, true, "0x", ""},
	{ast.FormatText, true, "1e", ""},
}

func vlexSeeds(seeds []vseed, n int, checks int) {
	sd := seeds[vsym_choice(len(seeds))]
	vlex3(sd.format, sd.program, sd.prefix, sd.suffix, n, checks)
}

// ---- C04: no panic, termination within the step budget, channel closed ----

func vh_c04_lex_html_q()    { vlex(ast.FormatHTML, false, "", 4, vchkNoPanic) }
func vh_c04_lex_css_q()     { vlex(ast.FormatCSS, false, "", 3, vchkNoPanic) }
func vh_c04_lex_js_q()      { vlex(ast.FormatJS, false, "", 3, vchkNoPanic) }
func vh_c04_lex_json_q()    { vlex(ast.FormatJSON, false, "", 3, vchkNoPanic) }
func vh_c04_lex_md_q()      { vlex(ast.FormatMarkdown, false, "", 4, vchkNoPanic) }
func vh_c04_lex_text_q()    { vlex(ast.FormatText, false, "", 3, vchkNoPanic) }
func vh_c04_lex_program_q() { vlex(ast.FormatText, true, "", 3, vchkNoPanic) }
func vh_c04_lex_tseeds_q()  { vlexSeeds(vtextSeeds, 3, vchkNoPanic) }
func vh_c04_lex_cseeds_q()  { vlexSeeds(vcodeSeeds, 2, vchkNoPanic) }

func vh_c04_lex_html_t()   { vlex(ast.FormatHTML, false, "", 5, vchkNoPanic) }
func vh_c04_lex_css_t()    { vlex(ast.FormatCSS, false, "", 5, vchkNoPanic) }
func vh_c04_lex_js_t()     { vlex(ast.FormatJS, false, "", 5, vchkNoPanic) }
func vh_c04_lex_json_t()   { vlex(ast.FormatJSON, false, "", 5, vchkNoPanic) }
func vh_c04_lex_md_t()     { vlex(ast.FormatMarkdown, false, "", 5, vchkNoPanic) }
func vh_c04_lex_text_t()   { vlex(ast.FormatText, false, "", 5, vchkNoPanic) }
func vh_c04_lex_tseeds_t() { vlexSeeds(vtextSeeds, 4, vchkNoPanic) }
func vh_c04_lex_cseeds_t() { vlexSeeds(vcodeSeeds, 3, vchkNoPanic) }

// ---- C21: positions ----

func vh_c21_lex_html_q()    { vlex(ast.FormatHTML, false, "", 4, vchkPos) }
func vh_c21_lex_md_q()      { vlex(ast.FormatMarkdown, false, "", 4, vchkPos) }
func vh_c21_lex_program_q() { vlex(ast.FormatText, true, "", 3, vchkPos) }
func vh_c21_lex_tseeds_q()  { vlexSeeds(vtextSeeds, 3, vchkPos) }
func vh_c21_lex_cseeds_q()  { vlexSeeds(vcodeSeeds, 2, vchkPos) }

func vh_c21_lex_html_t()   { vlex(ast.FormatHTML, false, "", 5, vchkPos) }
func vh_c21_lex_md_t()     { vlex(ast.FormatMarkdown, false, "", 5, vchkPos) }
func vh_c21_lex_css_t()    { vlex(ast.FormatCSS, false, "", 4, vchkPos) }
func vh_c21_lex_js_t()     { vlex(ast.FormatJS, false, "", 4, vchkPos) }
func vh_c21_lex_tseeds_t() { vlexSeeds(vtextSeeds, 4, vchkPos) }
func vh_c21_lex_cseeds_t() { vlexSeeds(vcodeSeeds, 3, vchkPos) }

// ---- C15: tokens verbatim and tiling ----

func vh_c15_lex_html_q()   { vlex(ast.FormatHTML, false, "", 4, vchkTiling|vchkNoSyntax) }
func vh_c15_lex_md_q()     { vlex(ast.FormatMarkdown, false, "", 4, vchkTiling|vchkNoSyntax) }
func vh_c15_lex_text_q()   { vlex(ast.FormatText, false, "", 4, vchkTiling|vchkNoSyntax) }
func vh_c15_lex_tseeds_q() { vlexSeeds(vtextSeeds, 3, vchkTiling|vchkNoSyntax) }
func vh_c15_lex_cseeds_q() { vlexSeeds(vcodeSeeds, 2, vchkTiling|vchkNoSyntax) }
func vh_c15_lex_rawend_q() { vlexRawEnd(2) }
func vh_c15_lex_rawend_t() { vlexRawEnd(4) }

func vh_c15_lex_html_t()   { vlex(ast.FormatHTML, false, "", 5, vchkTiling) }
func vh_c15_lex_md_t()     { vlex(ast.FormatMarkdown, false, "", 5, vchkTiling) }
func vh_c15_lex_css_t()    { vlex(ast.FormatCSS, false, "", 4, vchkTiling) }
func vh_c15_lex_js_t()     { vlex(ast.FormatJS, false, "", 4, vchkTiling) }
func vh_c15_lex_json_t()   { vlex(ast.FormatJSON, false, "", 4, vchkTiling) }
func vh_c15_lex_tseeds_t() { vlexSeeds(vtextSeeds, 4, vchkTiling) }
func vh_c15_lex_cseeds_t() { vlexSeeds(vcodeSeeds, 3, vchkTiling) }
