package compiler

import (
	"reflect"

	"github.com/open2b/scriggo/ast"
	"github.com/open2b/scriggo/internal/runtime"
)

// C01 (reduced): one integer ALU instruction, emitted by the real builder
// function for every integer kind, executed by the real VM from an arbitrary
// canonical register state, equals Go's typed semantics, including faults.

var vintKinds = []reflect.Kind{reflect.Int, reflect.Int8, reflect.Int16, reflect.Int32, reflect.Int64,
	reflect.Uint, reflect.Uint8, reflect.Uint16, reflect.Uint32, reflect.Uint64, reflect.Uintptr}

// vcanon is the canonical register image of the low bits of v for kind: the
// sign or zero extension of the value at the kind's width.
func vcanon(kind reflect.Kind, v int64) int64 {
	switch kind {
	case reflect.Int8:
		return int64(int8(v))
	case reflect.Int16:
		return int64(int16(v))
	case reflect.Int32:
		return int64(int32(v))
	case reflect.Uint8:
		return int64(uint8(v))
	case reflect.Uint16:
		return int64(uint16(v))
	case reflect.Uint32:
		return int64(uint32(v))
	}
	return v
}

func visSigned(kind reflect.Kind) bool { return reflect.Int <= kind && kind <= reflect.Int64 }

const (
	vopAdd = iota
	vopSub
	vopSubInv
	vopMul
	vopDiv
	vopRem
	vopAnd
	vopAndNot
	vopOr
	vopXor
	vopShl
	vopShr
	vopNeg
	vnumOps
)

type vinteger interface {
	~int8 | ~int16 | ~int32 | ~int64 | ~uint8 | ~uint16 | ~uint32 | ~uint64
}

// vrefT is Go's typed semantics of x op y at type T ("what gc does"); the
// shift count is passed separately because it has its own type.
func vrefT[T vinteger](op int, x, y T) (r T, fault bool) {
	switch op {
	case vopAdd:
		return x + y, false
	case vopSub:
		return x - y, false
	case vopSubInv:
		return y - x, false
	case vopMul:
		return x * y, false
	case vopDiv:
		if y == 0 {
			return 0, true
		}
		return x / y, false
	case vopRem:
		if y == 0 {
			return 0, true
		}
		return x % y, false
	case vopAnd:
		return x & y, false
	case vopAndNot:
		return x &^ y, false
	case vopOr:
		return x | y, false
	case vopXor:
		return x ^ y, false
	case vopNeg:
		return -y, false
	}
	return 0, false
}

func vshiftT[T vinteger](left bool, x T, count uint64) T {
	if left {
		return x << count
	}
	return x >> count
}

// vref dispatches on the kind; x and y are canonical register images.
func vref(kind reflect.Kind, op int, x, y int64) (int64, bool) {
	switch kind {
	case reflect.Int8:
		r, f := vrefT(op, int8(x), int8(y))
		return int64(r), f
	case reflect.Int16:
		r, f := vrefT(op, int16(x), int16(y))
		return int64(r), f
	case reflect.Int32:
		r, f := vrefT(op, int32(x), int32(y))
		return int64(r), f
	case reflect.Int, reflect.Int64:
		r, f := vrefT(op, x, y)
		return r, f
	case reflect.Uint8:
		r, f := vrefT(op, uint8(x), uint8(y))
		return int64(r), f
	case reflect.Uint16:
		r, f := vrefT(op, uint16(x), uint16(y))
		return int64(r), f
	case reflect.Uint32:
		r, f := vrefT(op, uint32(x), uint32(y))
		return int64(r), f
	}
	r, f := vrefT(op, uint64(x), uint64(y))
	return int64(r), f
}

func vrefShift(kind reflect.Kind, left bool, x int64, count uint64) int64 {
	switch kind {
	case reflect.Int8:
		return int64(vshiftT(left, int8(x), count))
	case reflect.Int16:
		return int64(vshiftT(left, int16(x), count))
	case reflect.Int32:
		return int64(vshiftT(left, int32(x), count))
	case reflect.Int, reflect.Int64:
		return vshiftT(left, x, count)
	case reflect.Uint8:
		return int64(vshiftT(left, uint8(x), count))
	case reflect.Uint16:
		return int64(vshiftT(left, uint16(x), count))
	case reflect.Uint32:
		return int64(vshiftT(left, uint32(x), count))
	}
	return int64(vshiftT(left, uint64(x), count))
}

// vemit calls the real builder function for op.
func vemit(fb *functionBuilder, op int, k bool, x, y, z int8, kind reflect.Kind) {
	pos := &ast.Position{Line: 1, Column: 1}
	switch op {
	case vopAdd:
		fb.emitAdd(k, x, y, z, kind)
	case vopSub:
		fb.emitSub(k, x, y, z, kind)
	case vopSubInv:
		fb.emitSubInv(k, x, y, z, kind)
	case vopMul:
		fb.emitMul(k, x, y, z, kind)
	case vopDiv:
		fb.emitDiv(k, x, y, z, kind, pos)
	case vopRem:
		fb.emitRem(k, x, y, z, kind, pos)
	case vopAnd:
		fb.emitAnd(k, x, y, z, kind)
	case vopAndNot:
		fb.emitAndNot(k, x, y, z, kind)
	case vopOr:
		fb.emitOr(k, x, y, z, kind)
	case vopXor:
		fb.emitXor(k, x, y, z, kind)
	case vopShl:
		fb.emitShl(k, x, y, z, kind)
	case vopShr:
		fb.emitShr(k, x, y, z, kind)
	case vopNeg:
		fb.emitNeg(y, z, kind)
	}
}

// vc01_alu: z = x op y with x in register 1, y in register 2 or an immediate,
// z register 1 (in place) or register 3 when the instruction form allows it.
func vc01_alu(op int) {
	kind := vintKinds[vsym_choice(len(vintKinds))]
	k := op != vopNeg && vsym_bool()
	x := vcanon(kind, vsym_i64())
	yraw := vsym_i64()
	// register numbers
	zreg := int8(1)
	if kind == reflect.Int && vsym_bool() {
		zreg = 3 // the Int forms take a separate destination
	}
	if op == vopNeg {
		zreg = 3
	}
	isShift := op == vopShl || op == vopShr
	var y int64
	ykind := kind
	if isShift {
		ykind = vintKinds[vsym_choice(len(vintKinds))] // the count has its own type
	}
	yop := int8(2)
	if k {
		// an immediate is the int8 image of a constant of the operand's type
		imm := vsym_i8()
		y = int64(imm)
		yop = imm
		if !visSigned(ykind) {
			vassume(imm >= 0)
		}
		if op == vopDiv || op == vopRem {
			vassume(imm != 0) // a constant zero divisor is a build error
		}
		if isShift {
			vassume(imm >= 0) // a constant negative count is a build error
		}
	} else {
		y = vcanon(ykind, yraw)
	}
	fb := vfb()
	vemit(fb, op, k, 1, yop, zreg, kind)
	vassert(len(fb.fn.Body) == 1, "one-instruction-emitted")
	other := vsym_i64()
	regs := []int64{0, x, y, other, other}
	if k {
		regs[2] = other
	}
	out, err := runtime.VStep(fb.fn.Body, regs)

	// reference
	var want int64
	fault := false
	faultText := "runtime error: integer divide by zero"
	if isShift {
		if visSigned(ykind) && y < 0 {
			fault = true
			faultText = "runtime error: negative shift amount"
		} else {
			want = vrefShift(kind, op == vopShl, x, uint64(y))
		}
	} else {
		want, fault = vref(kind, op, x, y)
	}
	if fault {
		msg, isPanic := runtime.VIsPanicError(err)
		vassert(err != nil, "fault-is-reported:"+faultText)
		vassert(isPanic, "fault-is-a-PanicError")
		txt, isRT := runtime.VRuntimeErrorText(msg)
		vassert(isRT && txt == faultText, "fault-message-is-go's")
		return
	}
	vassert(err == nil, "no-error-without-fault")
	vassert(out[zreg] == want, "result-equals-go-typed-semantics")
	vassert(out[zreg] == vcanon(kind, out[zreg]), "result-register-is-canonical")
	// frame: no other register changes
	for r := 1; r <= 4; r++ {
		if int8(r) != zreg {
			vassert(out[r] == regs[r], "other-registers-unchanged")
		}
	}
	vreach("end")
}

func vh_c01_add_q()    { vc01_alu(vopAdd) }
func vh_c01_sub_q()    { vc01_alu(vopSub) }
func vh_c01_subinv_q() { vc01_alu(vopSubInv) }
func vh_c01_mul_q()    { vc01_alu(vopMul) }
func vh_c01_div_q()    { vc01_alu(vopDiv) }
func vh_c01_rem_q()    { vc01_alu(vopRem) }
func vh_c01_and_q()    { vc01_alu(vopAnd) }
func vh_c01_andnot_q() { vc01_alu(vopAndNot) }
func vh_c01_or_q()     { vc01_alu(vopOr) }
func vh_c01_xor_q()    { vc01_alu(vopXor) }
func vh_c01_shl_q()    { vc01_alu(vopShl) }
func vh_c01_shr_q()    { vc01_alu(vopShr) }
func vh_c01_neg_q()    { vc01_alu(vopNeg) }

// ---- conversions between integer kinds ----

func vtypeOfKind(kind reflect.Kind) reflect.Type {
	switch kind {
	case reflect.Int:
		return reflect.TypeOf(int(0))
	case reflect.Int8:
		return reflect.TypeOf(int8(0))
	case reflect.Int16:
		return reflect.TypeOf(int16(0))
	case reflect.Int32:
		return reflect.TypeOf(int32(0))
	case reflect.Int64:
		return reflect.TypeOf(int64(0))
	case reflect.Uint:
		return reflect.TypeOf(uint(0))
	case reflect.Uint8:
		return reflect.TypeOf(uint8(0))
	case reflect.Uint16:
		return reflect.TypeOf(uint16(0))
	case reflect.Uint32:
		return reflect.TypeOf(uint32(0))
	case reflect.Uint64:
		return reflect.TypeOf(uint64(0))
	}
	return reflect.TypeOf(uintptr(0))
}

func vconvTo[S vinteger](dst reflect.Kind, v S) int64 {
	switch dst {
	case reflect.Int8:
		return int64(int8(v))
	case reflect.Int16:
		return int64(int16(v))
	case reflect.Int32:
		return int64(int32(v))
	case reflect.Int, reflect.Int64:
		return int64(v)
	case reflect.Uint8:
		return int64(uint8(v))
	case reflect.Uint16:
		return int64(uint16(v))
	case reflect.Uint32:
		return int64(uint32(v))
	}
	return int64(uint64(v))
}

// vrefConvert is Go's conversion D(S(x)) written with typed conversions.
func vrefConvert(src, dst reflect.Kind, x int64) int64 {
	switch src {
	case reflect.Int8:
		return vconvTo(dst, int8(x))
	case reflect.Int16:
		return vconvTo(dst, int16(x))
	case reflect.Int32:
		return vconvTo(dst, int32(x))
	case reflect.Int, reflect.Int64:
		return vconvTo(dst, x)
	case reflect.Uint8:
		return vconvTo(dst, uint8(x))
	case reflect.Uint16:
		return vconvTo(dst, uint16(x))
	case reflect.Uint32:
		return vconvTo(dst, uint32(x))
	}
	return vconvTo(dst, uint64(x))
}

func vc01_convert() {
	src := vintKinds[vsym_choice(len(vintKinds))]
	dst := vintKinds[vsym_choice(len(vintKinds))]
	x := vcanon(src, vsym_i64())
	other := vsym_i64()
	fb := vfb()
	fb.emitConvert(1, vtypeOfKind(dst), 3, src)
	vassert(len(fb.fn.Body) == 1, "one-instruction-emitted")
	regs := []int64{0, x, other, other, other}
	// the step needs the function's type table
	out, err := runtime.VStepTypes(fb.fn.Body, regs, fb.fn.Types)
	vassert(err == nil, "no-error")
	vassert(out[3] == vrefConvert(src, dst, x), "conversion-equals-go-typed-conversion")
	vassert(out[3] == vcanon(dst, out[3]), "result-register-is-canonical")
	vassert(out[1] == x && out[2] == other && out[4] == other, "other-registers-unchanged")
	vreach("end")
}

// ---- comparisons ----

func vrefCmpT[T vinteger](c int, x, y T) bool {
	switch c {
	case 0:
		return x == y
	case 1:
		return x != y
	case 2:
		return x < y
	case 3:
		return x <= y
	case 4:
		return x > y
	}
	return x >= y
}

func vrefCmp(kind reflect.Kind, c int, x, y int64) bool {
	switch kind {
	case reflect.Int8:
		return vrefCmpT(c, int8(x), int8(y))
	case reflect.Int16:
		return vrefCmpT(c, int16(x), int16(y))
	case reflect.Int32:
		return vrefCmpT(c, int32(x), int32(y))
	case reflect.Int, reflect.Int64:
		return vrefCmpT(c, x, y)
	case reflect.Uint8:
		return vrefCmpT(c, uint8(x), uint8(y))
	case reflect.Uint16:
		return vrefCmpT(c, uint16(x), uint16(y))
	case reflect.Uint32:
		return vrefCmpT(c, uint32(x), uint32(y))
	}
	return vrefCmpT(c, uint64(x), uint64(y))
}

// the condition the emitter selects for operator c on operands of kind
// (emitter_util.go: unsigned kinds take the U conditions)
func vcondition(kind reflect.Kind, c int) runtime.Condition {
	switch c {
	case 0:
		return runtime.ConditionEqual
	case 1:
		return runtime.ConditionNotEqual
	}
	if reflect.Uint <= kind && kind <= reflect.Uintptr {
		return []runtime.Condition{runtime.ConditionLessU, runtime.ConditionLessEqualU, runtime.ConditionGreaterU, runtime.ConditionGreaterEqualU}[c-2]
	}
	return []runtime.Condition{runtime.ConditionLess, runtime.ConditionLessEqual, runtime.ConditionGreater, runtime.ConditionGreaterEqual}[c-2]
}

func vc01_if() {
	kind := vintKinds[vsym_choice(len(vintKinds))]
	c := vsym_choice(6)
	k := vsym_bool()
	x := vcanon(kind, vsym_i64())
	y := vcanon(kind, vsym_i64())
	yop := int8(2)
	if k {
		imm := vsym_i8()
		if !visSigned(kind) {
			vassume(imm >= 0)
		}
		y, yop = int64(imm), imm
	}
	fb := vfb()
	fb.emitIf(k, 1, vcondition(kind, c), yop, kind, &ast.Position{Line: 1, Column: 1})
	fb.emitMove(true, 1, 3, reflect.Int) // executed only when the condition is false
	vassert(len(fb.fn.Body) == 2, "two-instructions-emitted")
	regs := []int64{0, x, y, 0, 7}
	out, err := runtime.VStep(fb.fn.Body, regs)
	vassert(err == nil, "no-error")
	taken := out[3] == 0 // the instruction after the If was skipped
	vassert(taken == vrefCmp(kind, c, x, y), "condition-equals-go-typed-comparison")
	vassert(out[1] == x && out[2] == y && out[4] == 7, "operands-unchanged")
	vreach("end")
}

func vh_c01_convert_q() { vc01_convert() }
func vh_c01_if_q()      { vc01_if() }

// ---- integer to floating-point conversions ----

func vconvToFloat[S vinteger](to32 bool, v S) float64 {
	if to32 {
		return float64(float32(v))
	}
	return float64(v)
}

func vc01_convert_float() {
	src := vintKinds[vsym_choice(len(vintKinds))]
	to32 := vsym_bool()
	x := vcanon(src, vsym_i64())
	typ := reflect.TypeOf(float64(0))
	if to32 {
		typ = reflect.TypeOf(float32(0))
	}
	fb := vfb()
	fb.emitConvert(1, typ, 2, src)
	vassert(len(fb.fn.Body) == 1, "one-instruction-emitted")
	_, fl, err := runtime.VStepF(fb.fn.Body, []int64{0, x, 0}, []float64{0, 0, 0, 0}, fb.fn.Types)
	vassert(err == nil, "no-error")
	var want float64
	switch src {
	case reflect.Int8:
		want = vconvToFloat(to32, int8(x))
	case reflect.Int16:
		want = vconvToFloat(to32, int16(x))
	case reflect.Int32:
		want = vconvToFloat(to32, int32(x))
	case reflect.Int, reflect.Int64:
		want = vconvToFloat(to32, x)
	case reflect.Uint8:
		want = vconvToFloat(to32, uint8(x))
	case reflect.Uint16:
		want = vconvToFloat(to32, uint16(x))
	case reflect.Uint32:
		want = vconvToFloat(to32, uint32(x))
	default:
		want = vconvToFloat(to32, uint64(x))
	}
	vassert(fl[2] == want, "conversion-equals-go-typed-conversion")
	vreach("end")
}

func vh_c01_convert_float_q() { vc01_convert_float() }
