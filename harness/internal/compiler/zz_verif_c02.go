package compiler

import (
	"math/big"
	"reflect"

	"github.com/open2b/scriggo/ast"
)

// C02 (reduced): the int64 fast paths of constant arithmetic, the big-integer
// fallback and representability are exact. The oracle is arbitrary-precision
// arithmetic written with math/big in the harness (natively the real package,
// symbolically a 192-bit two's complement model).

// vbigOf reads an integer constant back as a big integer.
func vbigOf(c constant) *big.Int {
	switch c := c.(type) {
	case int64Const:
		return big.NewInt(int64(c))
	case intConst:
		return c.i
	}
	vfail("result-is-not-an-integer-constant")
	return nil
}

var varithOps = []ast.OperatorType{ast.OperatorAddition, ast.OperatorSubtraction, ast.OperatorBitAnd, ast.OperatorBitOr, ast.OperatorXor, ast.OperatorAndNot}

// add, sub and the bitwise operators on every pair of int64 constants
func vc02_arith() {
	n1, n2 := vsym_i64(), vsym_i64()
	op := varithOps[vsym_choice(len(varithOps))]
	got, err := int64Const(n1).binaryOp(op, int64Const(n2))
	vassert(err == nil, "no-error")
	x, y := big.NewInt(n1), big.NewInt(n2)
	want := new(big.Int)
	switch op {
	case ast.OperatorAddition:
		want.Add(x, y)
	case ast.OperatorSubtraction:
		want.Sub(x, y)
	case ast.OperatorBitAnd:
		want.And(x, y)
	case ast.OperatorBitOr:
		want.Or(x, y)
	case ast.OperatorXor:
		want.Xor(x, y)
	case ast.OperatorAndNot:
		want.AndNot(x, y)
	}
	vassert(vbigOf(got).Cmp(want) == 0, "exact-result")
	vreach("end")
}

// multiplication: the divisor of the overflow test (n2) below 2^16 in
// magnitude, the other operand arbitrary (the full 64x64 overflow lemma is
// beyond every installed solver within the time cap)
func vc02_mul() {
	n1, n2 := vsym_i64(), vsym_i64()
	vassume(-65536 < n2 && n2 < 65536)
	got, err := int64Const(n1).binaryOp(ast.OperatorMultiplication, int64Const(n2))
	vassert(err == nil, "no-error")
	want := new(big.Int).Mul(big.NewInt(n1), big.NewInt(n2))
	vassert(vbigOf(got).Cmp(want) == 0, "exact-product")
	vreach("end")
}

// the lemma the big-integer model assumes for 64-bit division, decided here
// for 8-bit and 12-bit operands through the full-width divider
func vc02_divlemma() {
	a, b := vsym_i16(), vsym_i16()
	if vsym_bool() {
		vassume(-128 <= a && a < 128 && -128 <= b && b < 128)
	} else {
		vassume(-2048 <= a && a < 2048 && -2048 <= b && b < 2048)
	}
	vassume(b != 0)
	x := new(big.Int).Add(big.NewInt(int64(a)), big.NewInt(0)) // a value the model does not see as 64-bit
	y := new(big.Int).Add(big.NewInt(int64(b)), big.NewInt(0))
	q := new(big.Int).Quo(x, y)
	r := new(big.Int).Rem(x, y)
	vassert(q.Cmp(big.NewInt(int64(a/b))) == 0, "quotient-commutes-with-sign-extension")
	vassert(r.Cmp(big.NewInt(int64(a%b))) == 0, "remainder-commutes-with-sign-extension")
}

// division and remainder: truncated, zero divisor is an error. go/constant
// itself evaluates MinInt64 / -1 on int64 operands to MinInt64, and so does
// gc; that pair is excluded from the exactness claim.
func vc02_div() {
	n1, n2 := vsym_i64(), vsym_i64()
	op := []ast.OperatorType{ast.OperatorDivision, ast.OperatorModulo}[vsym_choice(2)]
	got, err := int64Const(n1).binaryOp(op, int64Const(n2))
	if n2 == 0 {
		vassert(err != nil, "division-by-zero-is-an-error")
		return
	}
	vassert(err == nil, "no-error")
	vassume(!(n1 == -1<<63 && n2 == -1))
	want := new(big.Int)
	if op == ast.OperatorDivision {
		want.Quo(big.NewInt(n1), big.NewInt(n2))
	} else {
		want.Rem(big.NewInt(n1), big.NewInt(n2))
	}
	vassert(vbigOf(got).Cmp(want) == 0, "exact-quotient-or-remainder")
	vreach("end")
}

// the big-integer implementation on operands of int64 size and on operands
// just beyond it (one more bit), every operator
func vc02_bigops() {
	a, b := vsym_i64(), vsym_i64()
	x, y := big.NewInt(a), big.NewInt(b)
	if vsym_bool() {
		// beyond int64: a + 2^63 style operands built with the model's own Add
		x = new(big.Int).Add(x, new(big.Int).SetUint64(1<<63))
	}
	c1, c2 := intConst{i: x}, intConst{i: y}
	ops := []ast.OperatorType{ast.OperatorAddition, ast.OperatorSubtraction, ast.OperatorDivision, ast.OperatorModulo,
		ast.OperatorBitAnd, ast.OperatorBitOr, ast.OperatorXor, ast.OperatorAndNot}
	op := ops[vsym_choice(len(ops))]
	got, err := c1.binaryOp(op, c2)
	if (op == ast.OperatorDivision || op == ast.OperatorModulo) && b == 0 {
		vassert(err != nil, "division-by-zero-is-an-error")
		return
	}
	vassert(err == nil, "no-error")
	want := new(big.Int)
	switch op {
	case ast.OperatorAddition:
		want.Add(x, y)
	case ast.OperatorSubtraction:
		want.Sub(x, y)
	case ast.OperatorDivision:
		want.Quo(x, y)
	case ast.OperatorModulo:
		want.Rem(x, y)
	case ast.OperatorBitAnd:
		want.And(x, y)
	case ast.OperatorBitOr:
		want.Or(x, y)
	case ast.OperatorXor:
		want.Xor(x, y)
	case ast.OperatorAndNot:
		want.AndNot(x, y)
	}
	vassert(vbigOf(got).Cmp(want) == 0, "exact-big-result")
	// comparisons
	i := vsym_choice(len(vcmpOps))
	cr, err := c1.binaryOp(vcmpOps[i], c2)
	cb, ok := cr.(boolConst)
	c := x.Cmp(y)
	vassert(err == nil && ok && bool(cb) == []bool{c == 0, c != 0, c < 0, c <= 0, c > 0, c >= 0}[i], "exact-big-comparison")
	vreach("end")
}

var vcmpOps = []ast.OperatorType{ast.OperatorEqual, ast.OperatorNotEqual, ast.OperatorLess, ast.OperatorLessEqual, ast.OperatorGreater, ast.OperatorGreaterEqual}

func vc02_cmp() {
	n1, n2 := vsym_i64(), vsym_i64()
	i := vsym_choice(len(vcmpOps))
	got, err := int64Const(n1).binaryOp(vcmpOps[i], int64Const(n2))
	vassert(err == nil, "no-error")
	b, ok := got.(boolConst)
	vassert(ok, "comparison-gives-a-boolean")
	c := big.NewInt(n1).Cmp(big.NewInt(n2))
	want := []bool{c == 0, c != 0, c < 0, c <= 0, c > 0, c >= 0}[i]
	vassert(bool(b) == want, "exact-comparison")
	vassert(int64Const(n1).equals(int64Const(n2)) == (c == 0), "equals")
}

// unary minus and complement for every integer kind
func vc02_unary() {
	n := vsym_i64()
	kind := vintKinds[vsym_choice(len(vintKinds))]
	typ := vtypeOfKind(kind)
	// the operand is a constant of type typ: it is in the type's range
	_, rerr := int64Const(n).representedBy(typ)
	vassume(rerr == nil)
	neg, err := int64Const(n).unaryOp(ast.OperatorSubtraction, typ)
	vassert(err == nil && vbigOf(neg).Cmp(new(big.Int).Neg(big.NewInt(n))) == 0, "exact-negation")
	com, err := int64Const(n).unaryOp(ast.OperatorXor, typ)
	vassert(err == nil, "complement-no-error")
	// ^x is -1 ^ x for signed types and max(T) ^ x for unsigned types
	var m *big.Int
	if visSigned(kind) {
		m = big.NewInt(-1)
	} else {
		m = new(big.Int).SetUint64(vmaxUnsigned(kind))
	}
	vassert(vbigOf(com).Cmp(new(big.Int).Xor(m, big.NewInt(n))) == 0, "exact-complement")
	vreach("end")
}

func vmaxUnsigned(kind reflect.Kind) uint64 {
	switch kind {
	case reflect.Uint8:
		return 1<<8 - 1
	case reflect.Uint16:
		return 1<<16 - 1
	case reflect.Uint32:
		return 1<<32 - 1
	}
	return 1<<64 - 1
}

// vinRange is the range of an integer kind, written with typed conversions.
func vinRange(kind reflect.Kind, v *big.Int) bool {
	if visSigned(kind) {
		if !v.IsInt64() {
			return false
		}
		n := v.Int64()
		switch kind {
		case reflect.Int8:
			return int64(int8(n)) == n
		case reflect.Int16:
			return int64(int16(n)) == n
		case reflect.Int32:
			return int64(int32(n)) == n
		}
		return true
	}
	if !v.IsUint64() {
		return false
	}
	return v.Uint64() <= vmaxUnsigned(kind)
}

// representedBy: accepted exactly when the value is in the range of the kind
func vc02_repr_int() {
	n := vsym_i64()
	kind := vintKinds[vsym_choice(len(vintKinds))]
	c, err := int64Const(n).representedBy(vtypeOfKind(kind))
	want := vinRange(kind, big.NewInt(n))
	vassert((err == nil) == want, "int64-constant-representable-iff-in-range")
	if err == nil {
		vassert(vbigOf(c).Cmp(big.NewInt(n)) == 0, "value-preserved")
	}
	// a big constant between 2^63 and 2^64 built from a uint64
	u := vsym_u64()
	bc := newIntConst(0).setUint64(u)
	c, err = bc.representedBy(vtypeOfKind(kind))
	want = vinRange(kind, new(big.Int).SetUint64(u))
	vassert((err == nil) == want, "big-constant-representable-iff-in-range")
	if err == nil {
		vassert(vbigOf(c).Cmp(new(big.Int).SetUint64(u)) == 0, "big-value-preserved")
	}
	vreach("end")
}

// float constants to integer kinds: accepted iff integral and in range
func vc02_repr_float() {
	f := vsym_f64()
	vassume(f == f) // not NaN (a constant cannot be NaN)
	vassume(-1e300 < f && f < 1e300)
	kind := vintKinds[vsym_choice(len(vintKinds))]
	c, err := float64Const(f).representedBy(vtypeOfKind(kind))
	// reference: integral and inside the kind's range, decided in float arithmetic
	// on exact powers of two
	integral := f == vtrunc(f)
	var lo, hi float64 // lo <= f < hi
	switch kind {
	case reflect.Int8:
		lo, hi = -128, 128
	case reflect.Int16:
		lo, hi = -32768, 32768
	case reflect.Int32:
		lo, hi = -2147483648, 2147483648
	case reflect.Int, reflect.Int64:
		lo, hi = -9223372036854775808, 9223372036854775808
	case reflect.Uint8:
		lo, hi = 0, 256
	case reflect.Uint16:
		lo, hi = 0, 65536
	case reflect.Uint32:
		lo, hi = 0, 4294967296
	default:
		lo, hi = 0, 18446744073709551616
	}
	want := integral && lo <= f && f < hi
	vassert((err == nil) == want, "float-constant-representable-iff-integral-and-in-range")
	if err == nil {
		// the integer constant has the same value
		var back float64
		switch c := c.(type) {
		case int64Const:
			back = float64(int64(c))
		case intConst:
			back = float64(c.i.Uint64())
		default:
			vfail("float-to-integer-gives-an-integer-constant")
		}
		vassert(back == f, "value-preserved")
	}
	vreach("end")
}

// float constants to float32: accepted iff the value rounds to a finite
// float32, i.e. iff |f| < 2^128 - 2^103 (the midpoint between MaxFloat32 and
// 2^128, which rounds to even = infinity)
func vc02_repr_float32() {
	f := vsym_f64()
	vassume(f == f)
	c, err := float64Const(f).representedBy(reflect.TypeOf(float32(0)))
	const lim = 0x1.ffffffp127
	want := -lim < f && f < lim
	vassert((err == nil) == want, "float32-representable-iff-it-rounds-to-a-finite-value")
	if err == nil {
		fc, ok := c.(float64Const)
		vassert(ok && float64(fc) == float64(float32(f)), "rounded-to-float32")
	}
	vreach("end")
}

// an integer constant converted to a floating-point type is a floating-point
// constant: arithmetic on it is float arithmetic (float64(3) / 2 is 1.5)
func vc02_typedfloat() {
	n := vsym_i64()
	vassume(-1<<53 <= n && n <= 1<<53) // exactly representable
	for _, typ := range []reflect.Type{reflect.TypeOf(float64(0)), reflect.TypeOf(float32(0))} {
		c, err := int64Const(n).representedBy(typ)
		vassert(err == nil, "integer-representable-as-float")
		fc, ok := c.(float64Const)
		vassert(ok, "typed-float-constant-is-float-backed")
		if typ.Kind() == reflect.Float64 {
			vassert(float64(fc) == float64(n), "value-preserved")
		}
		// dividing by one and multiplying by one keep it a float
		q, err := c.binaryOp(ast.OperatorDivision, float64Const(1))
		_, ok = q.(float64Const)
		vassert(err == nil && ok, "float-division-gives-a-float")
	}
	// 3 / 2 with float-typed operands is not the integer quotient
	three, _ := int64Const(3).representedBy(reflect.TypeOf(float64(0)))
	two, _ := int64Const(2).representedBy(reflect.TypeOf(float64(0)))
	_, isInt3 := three.(int64Const)
	_, isInt2 := two.(int64Const)
	vassert(!isInt3 && !isInt2, "float64(3)/2-does-not-use-integer-division")
}

// vtrunc is the integral part of f for |f| < 2^63, else f itself (every
// float64 of that magnitude is integral).
func vtrunc(f float64) float64 {
	if f >= 9223372036854775808 || f <= -9223372036854775808 {
		return f
	}
	return float64(int64(f))
}

// shifts of int64 constants by in-range counts
func vc02_shift() {
	n := vsym_i64()
	cnt := vsym_i64()
	vassume(0 <= cnt && cnt < 96)
	got, err := int64Const(n).binaryOp(ast.OperatorLeftShift, int64Const(cnt))
	vassert(err == nil, "shift-no-error")
	vassert(vbigOf(got).Cmp(new(big.Int).Lsh(big.NewInt(n), uint(cnt))) == 0, "exact-left-shift")
	got, err = int64Const(n).binaryOp(ast.OperatorRightShift, int64Const(cnt))
	vassert(err == nil, "shift-no-error")
	vassert(vbigOf(got).Cmp(new(big.Int).Rsh(big.NewInt(n), uint(cnt))) == 0, "exact-right-shift")
	// error classes
	neg := vsym_i64()
	vassume(neg < 0)
	_, err = int64Const(n).binaryOp(ast.OperatorLeftShift, int64Const(neg))
	vassert(err != nil, "negative-shift-count-is-an-error")
	big := vsym_i64()
	vassume(big >= 512)
	_, err = int64Const(n).binaryOp(ast.OperatorLeftShift, int64Const(big))
	vassert(err != nil, "huge-left-shift-count-is-an-error")
	// counts that do not fit an int64 (big constants up to 2^64-1)
	u := vsym_u64()
	vassume(u >= 1<<63)
	_, err = int64Const(n).binaryOp(ast.OperatorLeftShift, newIntConst(0).setUint64(u))
	vassert(err != nil, "left-shift-count-beyond-int64-is-an-error")
	_, err = newIntConst(n).binaryOp(ast.OperatorLeftShift, newIntConst(0).setUint64(u))
	vassert(err != nil, "big-left-shift-count-beyond-int64-is-an-error")
	vreach("end")
}

func vh_c02_arith_q()      { vc02_arith() }
func vh_c02_mul_q()        { vc02_mul() }
func vh_c02_div_q()        { vc02_div() }
func vh_c02_divlemma_q()   { vc02_divlemma() }
func vh_c02_cmp_q()        { vc02_cmp() }
func vh_c02_bigops_q()     { vc02_bigops() }
func vh_c02_unary_q()      { vc02_unary() }
func vh_c02_repr_int_q()   { vc02_repr_int() }
func vh_c02_repr_float_q() { vc02_repr_float() }
func vh_c02_shift_q()      { vc02_shift() }
func vh_c02_typedfloat_q() { vc02_typedfloat() }
func vh_c02_repr_float32_q() { vc02_repr_float32() }
