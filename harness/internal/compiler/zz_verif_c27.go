package compiler

import "github.com/open2b/scriggo/ast"

// C27 (bounded): for every expression the parser produces from a show
// statement "{{ PREFIX bytes SUFFIX }}" with a few symbolic bytes, the String
// form of the expression parses, and parses back to a structurally identical
// expression (compared node by node, positions ignored).

func vexprOf(src []byte) (ast.Expression, bool) {
	tree, _, err := ParseTemplateSource(src, ast.FormatText, false, false)
	if err != nil || tree == nil || len(tree.Nodes) != 1 {
		return nil, false
	}
	show, ok := tree.Nodes[0].(*ast.Show)
	if !ok || len(show.Expressions) != 1 {
		return nil, false
	}
	return show.Expressions[0], true
}

// vsameExpr compares two expressions structurally for the node kinds the
// bounded sources can produce; other kinds are compared by their String form.
func vsameExpr(a, b ast.Expression) bool {
	if a == nil || b == nil {
		return a == nil && b == nil
	}
	switch x := a.(type) {
	case *ast.Identifier:
		y, ok := b.(*ast.Identifier)
		return ok && x.Name == y.Name
	case *ast.BasicLiteral:
		y, ok := b.(*ast.BasicLiteral)
		return ok && x.Type == y.Type && x.Value == y.Value
	case *ast.UnaryOperator:
		y, ok := b.(*ast.UnaryOperator)
		return ok && x.Op == y.Op && vsameExpr(x.Expr, y.Expr)
	case *ast.BinaryOperator:
		y, ok := b.(*ast.BinaryOperator)
		return ok && x.Op == y.Op && vsameExpr(x.Expr1, y.Expr1) && vsameExpr(x.Expr2, y.Expr2)
	case *ast.Call:
		y, ok := b.(*ast.Call)
		if !ok || x.IsVariadic != y.IsVariadic || len(x.Args) != len(y.Args) || !vsameExpr(x.Func, y.Func) {
			return false
		}
		for i := range x.Args {
			if !vsameExpr(x.Args[i], y.Args[i]) {
				return false
			}
		}
		return true
	case *ast.Index:
		y, ok := b.(*ast.Index)
		return ok && vsameExpr(x.Expr, y.Expr) && vsameExpr(x.Index, y.Index)
	case *ast.Slicing:
		y, ok := b.(*ast.Slicing)
		return ok && x.IsFull == y.IsFull && vsameExpr(x.Expr, y.Expr) && vsameExpr(x.Low, y.Low) && vsameExpr(x.High, y.High) && vsameExpr(x.Max, y.Max)
	case *ast.Selector:
		y, ok := b.(*ast.Selector)
		return ok && x.Ident == y.Ident && vsameExpr(x.Expr, y.Expr)
	case *ast.TypeAssertion:
		y, ok := b.(*ast.TypeAssertion)
		return ok && vsameExpr(x.Expr, y.Expr) && vsameExpr(x.Type, y.Type)
	}
	return a.String() == b.String()
}

func vc27(prefix, suffix string, n int) {
	sym := vsym_bytes(n)
	for _, c := range sym {
		// an alphabet of operators, brackets, one letter, one digit, blank, quotes
		vassume(c == 'a' || c == '1' || c == ' ' || c == '+' || c == '-' || c == '*' || c == '/' || c == '%' ||
			c == '&' || c == '|' || c == '^' || c == '<' || c == '>' || c == '=' || c == '!' || c == '(' || c == ')' ||
			c == '[' || c == ']' || c == '.' || c == ',' || c == ':' || c == '"' || c == '\'' || c == '`' || c == '{' || c == '}')
	}
	src := append(append([]byte("{{ "+prefix), sym...), suffix+" }}"...)
	e1, ok := vexprOf(src)
	if !ok {
		vreach("not-one-expression")
		return
	}
	s1 := e1.String()
	// composite and function literals are abbreviated by String on purpose
	// ("T{...}", "func(...) {...}"): they are not meant to parse back
	for i := 0; i+5 <= len(s1); i++ {
		if s1[i:i+5] == "{...}" {
			vreach("abbreviated")
			return
		}
	}
	e2, ok := vexprOf([]byte("{{ " + s1 + " }}"))
	vassert(ok, "string-form-parses-back")
	vassert(vsameExpr(e1, e2), "string-form-parses-back-to-the-same-tree")
	vassert(e2.String() == s1, "string-form-is-stable")
	vreach("round-trip")
}

func vh_c27_free_q()   { vc27("", "", 3) }
func vh_c27_binary_q() { vc27("a ", " b", 2) }
func vh_c27_unary_q()  { vc27("-a", "", 3) }
func vh_c27_paren_q()  { vc27("(a", ")", 3) }
func vh_c27_call_q()   { vc27("f(a", ")", 3) }
func vh_c27_index_q()  { vc27("a[1", "]", 3) }
func vh_c27_prec_q()   { vc27("a+b", "c", 2) }
func vh_c27_sel_q()    { vc27("a.b", "", 3) }
func vh_c27_postbin_q() { vc27("(a+b)", "", 3) }
func vh_c27_postun_q()  { vc27("(-a)", "", 3) }
func vh_c27_postlit_q() { vc27("(1)", "", 3) }
func vh_c27_nestun1_q() { vc27("&(", "a)", 2) }
func vh_c27_nestun2_q() { vc27("-(", "a)", 2) }
func vh_c27_nestun3_q() { vc27("*(", "a)", 2) }
func vh_c27_callun_q()  { vc27("(", "a)(a)", 2) }
func vh_c27_free_t()   { vc27("", "", 3) }
func vh_c27_binary_t() { vc27("a ", " b", 3) }
func vh_c27_prec_t()   { vc27("a+b", "c*d", 3) }
