package compiler

import (
	"errors"
	"io/fs"
	"os"

	"github.com/open2b/scriggo/ast"
)

// C18: template file loading stays inside the file system and terminates.

// vrefValidFS is an independent statement of io/fs.ValidPath for ASCII and
// arbitrary bytes: "." or slash-separated non-empty elements other than "."
// and "..", valid UTF-8.
func vrefValidFS(p string, utf8ok bool) bool {
	if !utf8ok {
		return false
	}
	if p == "." {
		return true
	}
	start := 0
	for i := 0; i <= len(p); i++ {
		if i == len(p) || p[i] == '/' {
			el := p[start:i]
			if el == "" || el == "." || el == ".." {
				return false
			}
			start = i + 1
		}
	}
	return true
}

func vutf8ok(p string) bool {
	for i := 0; i < len(p); i++ {
		if p[i] >= 0x80 {
			return false // harness: restrict the reference to ASCII, see vassumeASCII
		}
	}
	return true
}

func vassumeASCII(p string) {
	for i := 0; i < len(p); i++ {
		vassume(p[i] < 0x80)
	}
}

// ValidTemplatePath against its documentation: a valid file system path, but
// "." is not valid; it can start with '/' or with one or more ".." elements.
func vc18_validpath(n int) {
	p := vsym_string(n)
	got := ValidTemplatePath(p)
	if !vutf8ok(p) {
		// non-ASCII: only absence of panics and agreement with fs.ValidPath on the stripped path
		return
	}
	q := p
	if len(q) > 0 && q[0] == '/' {
		q = q[1:]
	} else {
		for len(q) >= 3 && q[:3] == "../" {
			q = q[3:]
		}
	}
	want := q != "." && vrefValidFS(q, true)
	vassert(got == want, "valid-template-path-as-documented")
}

// vresolve is the reference resolution of name against the directory of
// parent: a stack of directory elements; ok is false when the reference
// leaves the root.
func vresolve(parent, name string) (string, bool) {
	var stack []string
	if len(name) > 0 && name[0] == '/' {
		name = name[1:]
	} else {
		// directory elements of parent (all but the last element)
		start := 0
		for i := 0; i < len(parent); i++ {
			if parent[i] == '/' {
				stack = append(stack, parent[start:i])
				start = i + 1
			}
		}
	}
	start := 0
	for i := 0; i <= len(name); i++ {
		if i == len(name) || name[i] == '/' {
			el := name[start:i]
			start = i + 1
			if el == ".." {
				if len(stack) == 0 {
					return "", false
				}
				stack = stack[:len(stack)-1]
			} else {
				stack = append(stack, el)
			}
		}
	}
	r := ""
	for i, el := range stack {
		if i > 0 {
			r += "/"
		}
		r += el
	}
	return r, true
}

func vhasDotDotElement(p string) bool {
	start := 0
	for i := 0; i <= len(p); i++ {
		if i == len(p) || p[i] == '/' {
			if p[start:i] == ".." {
				return true
			}
			start = i + 1
		}
	}
	return false
}

// rooted: the resolved name is a valid rooted path without ".." equal to the
// reference resolution, or ErrNotExist; references that leave the root always
// give ErrNotExist. (A spurious ErrNotExist for a result that merely begins
// with the two bytes ".." keeps loading inside the file system and is not a
// violation of this property.)
func vc18_rooted(np, nn int) {
	parent := vsym_string(np)
	name := vsym_string(nn)
	vassumeASCII(parent)
	vassumeASCII(name)
	vassume(parent != "." && vrefValidFS(parent, true))
	vassume(ValidTemplatePath(name))
	got, err := rooted(parent, name)
	want, inside := vresolve(parent, name)
	if err != nil {
		vassert(errors.Is(err, os.ErrNotExist), "rooted-error-is-not-exist")
		if inside {
			vassert(len(want) >= 2 && want[:2] == "..", "not-found-only-outside-root-or-dotdot-prefix")
			vreach("spurious-not-exist")
		}
		return
	}
	vassert(inside, "reference-leaving-the-root-must-fail")
	vassert(got == want, "rooted-equals-reference-resolution")
	vassert(fs.ValidPath(got) && got != ".", "rooted-result-is-a-valid-path")
	vassert(!vhasDotDotElement(got), "rooted-result-has-no-dotdot")
	vreach("resolved")
}

// cleanPath on valid paths: no panic, and the result denotes the same file.
func vc18_cleanpath(n int) {
	p := vsym_string(n)
	vassumeASCII(p)
	vassume(ValidTemplatePath(p))
	c := cleanPath(p)
	// leading ".." elements cannot be eliminated; every other element of a
	// valid path is an ordinary name, so a valid path is already clean
	vassert(c == p, "clean-of-a-valid-path-is-itself")
}

// validModulePath: no panic on any string.
func vc18_modulepath(n int) {
	p := vsym_string(n)
	_ = validModulePath(p)
}

// ---- one step of the expansion from an arbitrary state ----

type vrecFS struct {
	opened *[]string
	exists string // the only file that exists besides those in files
}

func (f vrecFS) Open(name string) (fs.File, error) {
	*f.opened = append(*f.opened, name)
	return nil, os.ErrNotExist
}

func (f vrecFS) ReadFile(name string) ([]byte, error) {
	*f.opened = append(*f.opened, name)
	if name == f.exists {
		return []byte("ab"), nil
	}
	return nil, os.ErrNotExist
}

var vpool = []string{"a.html", "d/b.html", "d/e/c.html", "f.html"}

func vc18_step(nn int) {
	var opened []string
	// stack of files being expanded: a non-empty duplicate-free prefix-choice of the pool
	depth := 1 + vsym_choice(3)
	paths := make([]string, depth)
	for i := range paths {
		paths[i] = vpool[i]
	}
	trees := map[string]parsedTree{}
	cachedTree := ast.NewTree("f.html", nil, ast.FormatHTML)
	cached := vsym_bool()
	if cached {
		pt := parsedTree{tree: cachedTree}
		pt.parent.path = "a.html"
		pt.parent.node = ast.NewRender(nil, "f.html")
		trees["f.html"] = pt
	}
	exists := vpool[vsym_choice(len(vpool))]
	pp := &templateExpansion{fsys: vrecFS{&opened, exists}, trees: trees, paths: paths, canExtend: true}
	name := vsym_string(nn)
	vassumeASCII(name)
	vassume(ValidTemplatePath(name))
	var node ast.Node
	switch vsym_choice(3) {
	case 0:
		node = ast.NewExtends(&ast.Position{}, name, ast.FormatHTML)
	case 1:
		node = ast.NewImport(&ast.Position{}, nil, name, nil)
	case 2:
		node = ast.NewRender(&ast.Position{}, name)
	}
	parent := paths[len(paths)-1]
	want, werr := rooted(parent, name)
	tree, err := pp.parseNodeFile(node)
	// only the rooted name is ever passed to the file system, at most once
	vassert(len(opened) <= 1, "file-read-at-most-once")
	if len(opened) == 1 {
		vassert(werr == nil && opened[0] == want, "only-the-rooted-name-is-opened")
		vassert(fs.ValidPath(opened[0]) && !vhasDotDotElement(opened[0]), "opened-name-is-a-valid-rooted-path")
	}
	if werr != nil {
		vassert(err != nil && len(opened) == 0, "reference-outside-the-root-opens-nothing")
		return
	}
	inStack := false
	for _, p := range paths {
		if p == want {
			inStack = true
		}
	}
	if inStack {
		_, isCycle := err.(*CycleError)
		vassert(isCycle && len(opened) == 0 && tree == nil, "cycle-reported-without-opening")
		vreach("cycle")
		return
	}
	if cached && want == "f.html" {
		vassert(len(opened) == 0, "cached-file-not-read-again")
		vreach("cached")
		return
	}
	vassert(len(opened) == 1, "uncached-file-is-read")
	if want != exists {
		vassert(errors.Is(err, os.ErrNotExist), "missing-file-is-not-exist")
	}
	vassert(len(pp.paths) == depth, "stack-restored")
}

// the same step through expand, including render ... default: a cycle is an
// error for every kind of reference; only a missing file is forgiven
func vc18_expand(nn int) {
	var opened []string
	// stack of files being expanded: a non-empty duplicate-free prefix-choice of the pool
	depth := 1 + vsym_choice(3)
	paths := make([]string, depth)
	for i := range paths {
		paths[i] = vpool[i]
	}
	trees := map[string]parsedTree{}
	cachedTree := ast.NewTree("f.html", nil, ast.FormatHTML)
	cached := vsym_bool()
	if cached {
		pt := parsedTree{tree: cachedTree}
		pt.parent.path = "a.html"
		pt.parent.node = ast.NewRender(nil, "f.html")
		trees["f.html"] = pt
	}
	exists := vpool[vsym_choice(len(vpool))]
	pp := &templateExpansion{fsys: vrecFS{&opened, exists}, trees: trees, paths: paths, canExtend: true}
	name := vsym_string(nn)
	vassumeASCII(name)
	vassume(ValidTemplatePath(name))
	var node ast.Node
	kind := vsym_choice(4)
	switch kind {
	case 0:
		node = ast.NewExtends(&ast.Position{}, name, ast.FormatHTML)
	case 1:
		node = ast.NewImport(&ast.Position{}, nil, name, nil)
	case 2:
		node = ast.NewRender(&ast.Position{}, name)
	case 3:
		node = ast.NewDefault(&ast.Position{}, ast.NewRender(&ast.Position{}, name), ast.NewBasicLiteral(&ast.Position{}, ast.StringLiteral, "\"x\""))
	}
	parent := paths[len(paths)-1]
	want, werr := rooted(parent, name)
	err := pp.expand([]ast.Node{node})
	var tree *ast.Tree
	// only the rooted name is ever passed to the file system, at most once
	vassert(len(opened) <= 1, "file-read-at-most-once")
	if len(opened) == 1 {
		vassert(werr == nil && opened[0] == want, "only-the-rooted-name-is-opened")
		vassert(fs.ValidPath(opened[0]) && !vhasDotDotElement(opened[0]), "opened-name-is-a-valid-rooted-path")
	}
	if werr != nil {
		vassert(len(opened) == 0, "reference-outside-the-root-opens-nothing")
		// a reference that leaves the root is "not found": forgiven only for import and render-default
		vassert((err == nil) == (kind == 1 || kind == 3), "escaping-reference-fails-as-not-found")
		return
	}
	inStack := false
	for _, p := range paths {
		if p == want {
			inStack = true
		}
	}
	if inStack {
		_, isCycle := err.(*CycleError)
		vassert(isCycle && len(opened) == 0 && tree == nil, "cycle-reported-without-opening")
		vreach("cycle")
		return
	}
	if cached && want == "f.html" {
		vassert(len(opened) == 0, "cached-file-not-read-again")
		vreach("cached")
		return
	}
	vassert(len(opened) == 1, "uncached-file-is-read")
	if want != exists {
		vassert((err == nil) == (kind == 1 || kind == 3), "missing-file-forgiven-only-for-import-and-default")
	}
	vassert(len(pp.paths) == depth, "stack-restored")
}

func vh_c18_validpath_q()  { vc18_validpath(5) }
func vh_c18_rooted_q()     { vc18_rooted(3, 5) }
func vh_c18_cleanpath_q()  { vc18_cleanpath(7) }
func vh_c18_modulepath_q() { vc18_modulepath(4) }
func vh_c18_step_q()       { vc18_step(6) }
func vh_c18_expand_q()     { vc18_expand(6) }

func vh_c18_validpath_t()  { vc18_validpath(7) }
func vh_c18_rooted_t()     { vc18_rooted(5, 7) }
func vh_c18_cleanpath_t()  { vc18_cleanpath(9) }
func vh_c18_modulepath_t() { vc18_modulepath(6) }
func vh_c18_step_t()       { vc18_step(8) }
func vh_c18_expand_t()     { vc18_expand(7) }
