package compiler

import "github.com/open2b/scriggo/ast"

// C04 (parser level): ParseTemplateSource and parseSource return a tree or a
// *SyntaxError for every source; no other panic escapes, and when they return
// the token channel is closed and drained (so the real lexer goroutine has
// terminated: nothing leaks).

func vparseTemplate(format ast.Format, prefix, suffix string, n int, imported bool) {
	sym := vsym_bytes(n)
	src := append(append([]byte(prefix), sym...), suffix...)
	tree, _, err := ParseTemplateSource(src, format, imported, false)
	if err != nil {
		_, ok := err.(*SyntaxError)
		vassert(ok, "error-is-a-syntax-error")
		vassert(tree == nil, "no-tree-with-error")
		if se, ok := err.(*SyntaxError); ok {
			vassert(0 <= se.pos.Start && se.pos.Start <= len(src) && se.pos.End <= len(src), "error-offset-inside-file")
		}
	} else {
		vassert(tree != nil, "tree-without-error")
	}
	vreach("end")
}

func vparseProgram(prefix, suffix string, n int, noPackage bool) {
	sym := vsym_bytes(n)
	src := append(append([]byte(prefix), sym...), suffix...)
	tree, err := parseSource(src, noPackage)
	if err != nil {
		_, ok := err.(*SyntaxError)
		vassert(ok, "error-is-a-syntax-error")
		vassert(tree == nil, "no-tree-with-error")
	} else {
		vassert(tree != nil, "tree-without-error")
	}
	vreach("end")
}

var vparseSeeds = []vseed{
	{ast.FormatHTML, false, "{{ ", " }}"},
	{ast.FormatHTML, false, "{% ", " %}"},
	{ast.FormatHTML, false, "{%% ", " %%}"},
	{ast.FormatHTML, false, "{% if ", " %}{% end %}"},
	{ast.FormatHTML, false, "{% for ", " %}{% end %}"},
	{ast.FormatHTML, false, "{% macro M", " %}{% end %}"},
	{ast.FormatHTML, false, "{% extends \"", "\" %}"},
	{ast.FormatHTML, false, "{{ a[", "] }}"},
	{ast.FormatHTML, false, "{{ f(", ") }}"},
	{ast.FormatHTML, false, "{% raw %}", "{% end %}"},
	{ast.FormatHTML, false, "{% if a %}", "{% end %}"},
	{ast.FormatHTML, false, "{% var a = ", " %}"},
	{ast.FormatMarkdown, false, "{{ ", " }}"},
	{ast.FormatText, true, "package p;", ""},
	{ast.FormatText, true, "package p;func f() {", "}"},
	{ast.FormatText, true, "package p;var a = ", "\n"},
	{ast.FormatText, true, "package p;import \"", "\""},
}

func vparseSeeded(n int) {
	sd := vparseSeeds[vsym_choice(len(vparseSeeds))]
	if sd.program {
		vparseProgram(sd.prefix, sd.suffix, n, false)
	} else {
		vparseTemplate(sd.format, sd.prefix, sd.suffix, n, false)
	}
}

func vh_c04_parse_html_q()     { vparseTemplate(ast.FormatHTML, "", "", 3, false) }
func vh_c04_parse_md_q()       { vparseTemplate(ast.FormatMarkdown, "", "", 3, false) }
func vh_c04_parse_imported_q() { vparseTemplate(ast.FormatHTML, "", "", 3, true) }
func vh_c04_parse_program_q()  { vparseProgram("", "", 2, false) }
func vh_c04_parse_seeds_q()    { vparseSeeded(2) }

func vh_c04_parse_html_t()    { vparseTemplate(ast.FormatHTML, "", "", 5, false) }
func vh_c04_parse_md_t()      { vparseTemplate(ast.FormatMarkdown, "", "", 4, false) }
func vh_c04_parse_program_t() { vparseProgram("", "", 3, false) }
func vh_c04_parse_seeds_t()   { vparseSeeded(3) }
