package compiler

import (
	"github.com/open2b/scriggo/ast"
	"github.com/open2b/scriggo/ast/astutil"
	"github.com/open2b/scriggo/internal/runtime"
)

// C15 (parser and builder part): the cuts that the parser records on text
// nodes remove only blanks (space, tab, CR) and at most the line's newline, never
// overlap, and the builder stores text chunks so that the instructions read
// them back in order.

type vtextCollector struct{ texts []*ast.Text }

func (c *vtextCollector) Visit(n ast.Node) astutil.Visitor {
	if t, ok := n.(*ast.Text); ok {
		c.texts = append(c.texts, t)
	}
	return c
}

func visBlank(c byte) bool { return c == ' ' || c == '\t' || c == '\r' }

func vc15_cuts(pre, mid, post string, n1, n2, n3 int) {
	a, b, c := vsym_bytes(n1), vsym_bytes(n2), vsym_bytes(n3)
	var src []byte
	src = append(src, a...)
	src = append(src, pre...)
	src = append(src, b...)
	src = append(src, mid...)
	src = append(src, c...)
	src = append(src, post...)
	tree, _, err := ParseTemplateSource(src, ast.FormatHTML, false, false)
	if err != nil {
		return
	}
	col := &vtextCollector{}
	astutil.Walk(col, tree)
	total := 0
	for _, t := range col.texts {
		l, r := t.Cut.Left, t.Cut.Right
		vassert(0 <= l && 0 <= r && l+r <= len(t.Text), "cuts-do-not-overlap")
		// left cut: blanks, optionally ended by the newline of the statement line
		for i := 0; i < l; i++ {
			ch := t.Text[i]
			vassert(visBlank(ch) || (ch == '\n' && i == l-1), "left-cut-removes-only-blanks-and-one-newline")
		}
		// right cut: blanks after the last newline
		for i := len(t.Text) - r; i < len(t.Text); i++ {
			vassert(visBlank(t.Text[i]), "right-cut-removes-only-blanks")
		}
		if r > 0 {
			// what is cut on the right starts a line
			k := len(t.Text) - r
			vassert(k == 0 || t.Text[k-1] == '\n', "right-cut-starts-at-a-line-start")
		}
		// the node's text is the verbatim slice of the source
		p := t.Pos()
		vassert(p.End-p.Start+1 == len(t.Text) && string(src[p.Start:p.End+1]) == string(t.Text), "text-node-verbatim")
		total += l + r
	}
	if total > 0 {
		vreach("some-cut")
	}
	vreach("end")
}

// a line that consists solely of one statement and blanks is removed
// entirely, newline included (the documented removal)
func vc15_cutline(stmt string, n int) {
	b1, b2 := vsym_bytes(n), vsym_bytes(n)
	for _, c := range b1 {
		vassume(visBlank(c))
	}
	for _, c := range b2 {
		vassume(visBlank(c))
	}
	var src []byte
	src = append(src, "x\n"...)
	src = append(src, b1...)
	src = append(src, stmt...)
	src = append(src, b2...)
	src = append(src, "\ny"...)
	src = append(src, "{% end %}"...)
	tree, _, err := ParseTemplateSource(src, ast.FormatHTML, false, false)
	vassert(err == nil, "parses")
	col := &vtextCollector{}
	astutil.Walk(col, tree)
	vassert(len(col.texts) == 2, "two-text-nodes")
	before, after := col.texts[0], col.texts[1]
	vassert(before.Cut.Left == 0 && before.Cut.Right == len(b1), "leading-blanks-of-a-statement-line-are-cut")
	vassert(after.Cut.Left == len(b2)+1 && after.Cut.Right == 0, "trailing-blanks-and-newline-of-a-statement-line-are-cut")
}

// emitText: chunks come back in order through the Text instructions
func vc15_emittext(n int) {
	fb := vfb()
	var want []byte
	k := 1 + vsym_choice(n)
	for i := 0; i < k; i++ {
		chunk := []byte(vsym_nstring(1 + i%2))
		want = append(want, chunk...)
		inURL := vsym_bool()
		fb.emitText(chunk, inURL, false)
		if vsym_bool() {
			fb.emitMove(true, 1, 2, 2) // an instruction between two texts
		}
	}
	fb.end()
	var got []byte
	for _, in := range fb.fn.Body {
		if in.Op == runtime.OpText {
			idx := int(decodeUint16(in.A, in.B))
			vassert(idx < len(fb.fn.Text), "text-index-in-range")
			vassert(len(fb.fn.Text[idx]) > 0, "no-empty-text-chunk")
			got = append(got, fb.fn.Text[idx]...)
		}
	}
	vassert(string(got) == string(want), "text-chunks-in-order")
}

func vh_c15_cuts_if_q()   { vc15_cuts("{% if a %}", "{% end %}", "", 2, 2, 1) }
func vh_c15_cuts_show_q() { vc15_cuts("{% a := 1 %}", "{{ a }}", "", 2, 2, 1) }
func vh_c15_cuts_cmt_q()  { vc15_cuts("{# c #}", "{% b() %}", "", 2, 2, 1) }
func vh_c15_emittext_q()  { vc15_emittext(3) }
func vh_c15_cutline_q()   { vc15_cutline("{% if a %}", 2) }
func vh_c15_cutline_t()   { vc15_cutline("{% for a %}", 3) }

func vh_c15_cuts_if_t()   { vc15_cuts("{% if a %}", "{% end %}", "z", 3, 3, 2) }
func vh_c15_cuts_for_t()  { vc15_cuts("{% for a %}", "{% end for %}", "", 3, 2, 2) }
func vh_c15_emittext_t()  { vc15_emittext(5) }
