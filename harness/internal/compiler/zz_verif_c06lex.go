package compiler

import "github.com/open2b/scriggo/ast"

// C06 (lexer part): the context in which a show is compiled does not depend
// on the content of a preceding script or style element. By the HTML
// specification "</script" / "</style" always ends the element, whatever its
// content (also inside a JavaScript or CSS string literal), so after it the
// document is HTML again: a show in an unquoted attribute value must be
// compiled for the unquoted-attribute context, in a quoted one for the
// quoted-attribute context, and in text for the HTML context.

func vc06_lexctx(open, close string, n int) {
	body := vsym_bytes(n)
	// the element's content is arbitrary, but does not itself contain template
	// syntax or a tag start (that would legitimately change what follows)
	for _, c := range body {
		vassume(c != '{' && c != '<' && c != '}')
	}
	tail := []string{"<p class={{ a }}>", "<p class=\"{{ a }}\">", "<p class='{{ a }}'>", "<p>{{ a }}</p>", "<a href={{ a }}>"}
	want := []ast.Context{ast.ContextUnquotedAttr, ast.ContextQuotedAttr, ast.ContextQuotedAttr, ast.ContextHTML, ast.ContextUnquotedAttr}
	i := vsym_choice(len(tail))
	var src []byte
	src = append(src, open...)
	src = append(src, body...)
	src = append(src, close...)
	src = append(src, tail[i]...)
	toks, err := vlexAll(src, ast.FormatHTML, false, false)
	vassert(err == nil, "lexes")
	found := false
	for _, tok := range toks {
		if tok.typ == tokenLeftBraces {
			vassert(!found, "one-show")
			found = true
			vassert(tok.ctx == want[i], "show-context-independent-of-the-preceding-element-content")
		}
	}
	vassert(found, "show-token-present")
}

func vh_c06_lexctx_script_q() { vc06_lexctx("<script>", "</script>", 3) }
func vh_c06_lexctx_style_q()  { vc06_lexctx("<style>", "</style>", 3) }
func vh_c06_lexctx_script_t() { vc06_lexctx("<script>", "</script>", 4) }
func vh_c06_lexctx_style_t()  { vc06_lexctx("<style>", "</style>", 4) }
func vh_c06_lexctx_json_t()   { vc06_lexctx("<script type=\"application/ld+json\">", "</script>", 3) }

// The body of a macro with a result type is scanned in the context of that
// type from its first to its last byte: a show placed after any block
// statement of the body (if, for, switch, raw, a comment, arbitrary text) is
// compiled for the macro's context, not for that of the enclosing file.
func vc06_lexctx_macro() {
	kinds := []string{"js", "css", "json", "html", "markdown"}
	want := []ast.Context{ast.ContextJS, ast.ContextCSS, ast.ContextJSON, ast.ContextHTML, ast.ContextMarkdown}
	k := vsym_choice(len(kinds))
	blocks := []string{
		"",
		"{% raw %}x{% end raw %}",
		"{% raw %}x{% end %}",
		"{% raw a %}x{% end raw a %}",
		"{% if a %}y{% end %}",
		"{% if a %}y{% else %}z{% end if %}",
		"{% for i := 0; i < 1; i++ %}y{% end for %}",
		"{% switch %}{% default %}y{% end %}",
		"{# c #}",
		"{% if a %}{% raw %}x{% end %}{% end %}",
	}
	b := blocks[vsym_choice(len(blocks))]
	txt := vsym_bytes(1)
	for _, c := range txt {
		vassume(c != '{' && c != '<' && c != '}' && c != '"' && c != '\'' && c != '/' && c != '`' && c != '\\' && c != '\t' && c != ' ' && c != '\n' && c != '\r')
	}
	src := []byte("{% macro M " + kinds[k] + " %}" + b + string(txt) + "{{ a }}{% end macro %}<p>{{ a }}</p>")
	toks, err := vlexAll(src, ast.FormatHTML, false, false)
	vassert(err == nil, "lexes")
	n := 0
	for _, tok := range toks {
		if tok.typ == tokenLeftBraces {
			if n == 0 {
				vassert(tok.ctx == want[k], "show-in-a-typed-macro-body-has-the-macro-context")
			} else {
				vassert(tok.ctx == ast.ContextHTML, "show-after-the-macro-has-the-file-context")
			}
			n++
		}
	}
	vassert(n == 2, "two-shows")
	vreach("end")
}

func vh_c06_lexctx_macro_q() { vc06_lexctx_macro() }
