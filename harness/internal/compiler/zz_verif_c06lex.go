package compiler

import "github.com/open2b/scriggo/ast"

// C06 (lexer part): the context in which a show is compiled does not depend
// on the content of a preceding script or style element. By the HTML
// specification "</script" / "</style" always ends the element, whatever its
// content (also inside a JavaScript or CSS string literal), so after it the
// document is HTML again: a show in an unquoted attribute value must be
// compiled for the unquoted-attribute context, in a quoted one for the
// quoted-attribute context, and in text for the HTML context.

func vc06_lexctx(open, close string, n int) {
	body := vsym_bytes(n)
	// the element's content is arbitrary, but does not itself contain template
	// syntax or a tag start (that would legitimately change what follows)
	for _, c := range body {
		vassume(c != '{' && c != '<' && c != '}')
	}
	tail := []string{"<p class={{ a }}>", "<p class=\"{{ a }}\">", "<p class='{{ a }}'>", "<p>{{ a }}</p>", "<a href={{ a }}>"}
	want := []ast.Context{ast.ContextUnquotedAttr, ast.ContextQuotedAttr, ast.ContextQuotedAttr, ast.ContextHTML, ast.ContextUnquotedAttr}
	i := vsym_choice(len(tail))
	var src []byte
	src = append(src, open...)
	src = append(src, body...)
	src = append(src, close...)
	src = append(src, tail[i]...)
	toks, err := vlexAll(src, ast.FormatHTML, false, false)
	vassert(err == nil, "lexes")
	found := false
	for _, tok := range toks {
		if tok.typ == tokenLeftBraces {
			vassert(!found, "one-show")
			found = true
			vassert(tok.ctx == want[i], "show-context-independent-of-the-preceding-element-content")
		}
	}
	vassert(found, "show-token-present")
}

func vh_c06_lexctx_script_q() { vc06_lexctx("<script>", "</script>", 3) }
func vh_c06_lexctx_style_q()  { vc06_lexctx("<style>", "</style>", 3) }
func vh_c06_lexctx_script_t() { vc06_lexctx("<script>", "</script>", 4) }
func vh_c06_lexctx_style_t()  { vc06_lexctx("<style>", "</style>", 4) }
func vh_c06_lexctx_json_t()   { vc06_lexctx("<script type=\"application/ld+json\">", "</script>", 3) }
