package compiler

import (
	"reflect"

	"github.com/open2b/scriggo/internal/runtime"
)

// C20: exceeding an implementation limit is an error, never wrong code.
// The limits are the package constants of the current source; the decoders
// are the expressions the VM uses (uint8(b), decodeUint16, decodeValueIndex).

func vc20_codec() {
	v16 := vsym_i16()
	a, b := encodeInt16(v16)
	vassert(decodeInt16(a, b) == v16, "int16-roundtrip")
	u16 := vsym_u16()
	a, b = encodeUint16(u16)
	vassert(decodeUint16(a, b) == u16, "uint16-roundtrip")
	u24 := vsym_u32()
	vassume(u24 < 1<<24)
	a, b, c := encodeUint24(u24)
	vassert(decodeUint24(a, b, c) == u24, "uint24-roundtrip")
}

// every value index that the tables admit survives encode/decode
func vc20_valueindex() {
	t := registerType(vsym_choice(4))
	i := vsym_int()
	limit := 0
	switch t {
	case intRegister:
		limit = maxIntValuesCount
	case floatRegister:
		limit = maxFloatValuesCount
	case stringRegister:
		limit = maxStringValuesCount
	case generalRegister:
		limit = maxGeneralValuesCount
	}
	vassume(0 <= i && i < limit)
	a, b := encodeValueIndex(t, i)
	t2, i2 := decodeValueIndex(a, b)
	vassert(t2 == t && i2 == i, "value-index-roundtrip-below-the-limit")
}

// the int8 results of the append functions are read back by the VM as uint8
func vc20_int8index() {
	r := vsym_int()
	limit := []int{maxNativeFunctionsCount, maxScriggoFunctionsCount, maxStringValuesCount, maxGeneralValuesCount, maxFieldIndexesCount, maxTypesCount}[vsym_choice(6)]
	vassume(0 <= r && r < limit)
	vassert(int(uint8(int8(r))) == r, "int8-index-read-back-as-uint8-below-the-limit")
}

func vfb() *functionBuilder {
	fn := &runtime.Function{Pkg: "p", Name: "f", Pos: &runtime.Position{Line: 1, Column: 1}}
	return newBuilder(fn, "p.go")
}

// vlimit runs f and reports whether it panicked with a *LimitExceededError;
// any other panic propagates.
func vlimit(f func()) (limited bool) {
	defer func() {
		if r := recover(); r != nil {
			if _, ok := r.(*LimitExceededError); ok {
				limited = true
				return
			}
			panic(r)
		}
	}()
	f()
	return false
}

// register allocation: from any count 0..127 newRegister returns count+1 or
// fails with the limit error exactly at 127; never a wrapped register.
func vc20_newregister() {
	fb := vfb()
	n := vsym_i8()
	vassume(n >= 0)
	kind := []reflect.Kind{reflect.Int, reflect.Float64, reflect.String, reflect.Interface}[vsym_choice(4)]
	t := kindToType(kind)
	fb.numRegs[t] = n
	fb.maxRegs[t] = n
	var r int8
	limited := vlimit(func() { r = fb.newRegister(kind) })
	if n == maxRegistersCount {
		vassert(limited, "register-limit-reported")
	} else {
		vassert(!limited, "no-limit-error-below-the-limit")
		vassert(r == n+1 && r >= 1, "next-register")
		vassert(fb.numRegs[t] == r && fb.maxRegs[t] == r, "register-counters-updated")
	}
}

// table appends at the sizes around each limit
func vc20_tables() {
	fb := vfb()
	fn := fb.fn
	switch vsym_choice(6) {
	case 0: // int values
		size := []int{0, 1, maxIntValuesCount - 1, maxIntValuesCount}[vsym_choice(4)]
		fn.Values.Int = make([]int64, size)
		for i := range fn.Values.Int {
			fn.Values.Int[i] = int64(i)
		}
		var r int
		limited := vlimit(func() { r = fb.makeIntValue(-1) })
		if size == maxIntValuesCount {
			vassert(limited, "int-values-limit-reported")
		} else {
			vassert(!limited && r == size && len(fn.Values.Int) == size+1 && fn.Values.Int[r] == -1, "int-value-appended")
			a, b := encodeValueIndex(intRegister, r)
			_, i2 := decodeValueIndex(a, b)
			vassert(i2 == r, "int-value-index-decodes")
		}
		if size > 0 {
			vassert(fb.makeIntValue(0) == 0, "existing-int-value-reused")
		}
	case 1: // float values
		size := []int{0, maxFloatValuesCount - 1, maxFloatValuesCount}[vsym_choice(3)]
		fn.Values.Float = make([]float64, size)
		for i := range fn.Values.Float {
			fn.Values.Float[i] = float64(i)
		}
		var r int
		limited := vlimit(func() { r = fb.makeFloatValue(-1) })
		if size == maxFloatValuesCount {
			vassert(limited, "float-values-limit-reported")
		} else {
			vassert(!limited && r == size && fn.Values.Float[r] == -1, "float-value-appended")
			a, b := encodeValueIndex(floatRegister, r)
			_, i2 := decodeValueIndex(a, b)
			vassert(i2 == r, "float-value-index-decodes")
		}
	case 2: // string values
		size := []int{0, maxStringValuesCount - 1, maxStringValuesCount}[vsym_choice(3)]
		fn.Values.String = make([]string, size)
		for i := range fn.Values.String {
			fn.Values.String[i] = string([]byte{'s', byte(i)})
		}
		var r int8
		limited := vlimit(func() { r = fb.makeStringValue("new") })
		if size == maxStringValuesCount {
			vassert(limited, "string-values-limit-reported")
		} else {
			vassert(!limited && int(uint8(r)) == size && fn.Values.String[uint8(r)] == "new", "string-value-appended")
		}
	case 3: // functions
		size := []int{0, maxScriggoFunctionsCount - 1, maxScriggoFunctionsCount}[vsym_choice(3)]
		fn.Functions = make([]*runtime.Function, size)
		g := &runtime.Function{Name: "g"}
		var r int8
		limited := vlimit(func() { r = fb.addFunction(g) })
		if size == maxScriggoFunctionsCount {
			vassert(limited, "functions-limit-reported")
		} else {
			vassert(!limited && int(uint8(r)) == size && fn.Functions[uint8(r)] == g, "function-appended")
		}
	case 4: // native functions
		size := []int{0, maxNativeFunctionsCount - 1, maxNativeFunctionsCount}[vsym_choice(3)]
		fn.NativeFunctions = make([]*runtime.NativeFunction, size)
		g := &runtime.NativeFunction{}
		var r int8
		limited := vlimit(func() { r = fb.addNativeFunction(g) })
		if size == maxNativeFunctionsCount {
			vassert(limited, "native-functions-limit-reported")
		} else {
			vassert(!limited && int(uint8(r)) == size && fn.NativeFunctions[uint8(r)] == g, "native-function-appended")
		}
	case 5: // field indexes
		size := []int{0, maxFieldIndexesCount - 1, maxFieldIndexesCount}[vsym_choice(3)]
		fn.FieldIndexes = make([][]int, size)
		for i := range fn.FieldIndexes {
			fn.FieldIndexes[i] = []int{i}
		}
		var r int8
		limited := vlimit(func() { r = fb.makeFieldIndex([]int{0, 1}) })
		if size == maxFieldIndexesCount {
			vassert(limited, "field-indexes-limit-reported")
		} else {
			vassert(!limited && int(uint8(r)) == size && len(fn.FieldIndexes[uint8(r)]) == 2, "field-index-appended")
		}
	}
}

// text chunks: the index stored in the Text instruction must decode to the
// chunk just registered, whatever the number of chunks already present; if
// the encoding cannot hold it a limit error is due.
func vc20_text() {
	fb := vfb()
	// pre-states satisfy the invariant len(fn.Text) <= 65536 (what the 16-bit index
	// plus one pending chunk admits); larger tables are unreachable once the limit holds
	size := []int{0, 1, 65535, 65536}[vsym_choice(4)]
	fb.fn.Text = make([][]byte, size)
	limited := vlimit(func() { fb.emitText([]byte("x"), false, false) })
	if size >= 65536 {
		vassert(limited, "text-chunks-limit-reported")
	}
	if !limited {
		in := fb.fn.Body[len(fb.fn.Body)-1]
		vassert(in.Op == runtime.OpText, "text-instruction-emitted")
		vassert(int(decodeUint16(in.A, in.B)) == size, "text-index-decodes-to-the-chunk")
	}
}

func vh_c20_codec_q()       { vc20_codec() }
func vh_c20_valueindex_q()  { vc20_valueindex() }
func vh_c20_int8index_q()   { vc20_int8index() }
func vh_c20_newregister_q() { vc20_newregister() }
func vh_c20_tables_q()      { vc20_tables() }
func vh_c20_text_q()        { vc20_text() }
