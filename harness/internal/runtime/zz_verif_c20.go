package runtime

// C20: the VM's copies of the index decoders agree with a direct reference
// for every operand value (the compiler's copies are checked against the
// encoders in the compiler package; both are "kept in sync" by comment only).

func vh_c20_vmdecode_q() {
	a, b, c := vsym_i8(), vsym_i8(), vsym_i8()
	vassert(decodeInt16(a, b) == int16(uint16(uint8(a))<<8|uint16(uint8(b))), "vm-decodeInt16")
	vassert(decodeUint16(a, b) == uint16(uint8(a))*256+uint16(uint8(b)), "vm-decodeUint16")
	vassert(decodeUint24(a, b, c) == uint32(uint8(a))*65536+uint32(uint8(b))*256+uint32(uint8(c)), "vm-decodeUint24")
	t, i := decodeValueIndex(a, b)
	vassert(uint8(t) == uint8(a)>>6 && i == int(uint8(a)&0x3f)*256+int(uint8(b)), "vm-decodeValueIndex")
}
