package runtime

import "errors"

// C12 (reduced): convertPanic classifies Stop, Fatal, writer errors, run-time
// errors and panics correctly for every opcode value; Run maps the writer
// error back to the error itself.

var vErrStop = errors.New("verif: stop")
var vErrOut = errors.New("verif: out")

type vcustomError struct{ s string }

func (e vcustomError) Error() string { return e.s }

func vc12_classify() {
	op := Operation(vsym_i8())
	// OpCallIndirect inspects its callable operand through reflect: outside the kernel
	vassume(op != OpCallIndirect)
	info := map[Addr]InstructionInfo{0: {Path: "p.go", Position: Position{Line: 7, Column: 3, Start: 40, End: 42}}}
	vm := &VM{env: &env{}, main: true}
	vm.fn = &Function{Pkg: "main", Name: "f", Body: []Instruction{{Op: op}, {Op: OpReturn}}, InstructionInfo: info}
	vm.pc = 1
	fatal := &fatalError{env: vm.env, msg: "fatal value"}
	var msg any
	kind := vsym_choice(6)
	switch kind {
	case 0:
		msg = stopError{vErrStop}
	case 1:
		msg = outError{vErrOut}
	case 2:
		msg = fatal
	case 3:
		msg = runtimeError("runtime error: something")
	case 4:
		msg = "a panic value"
	case 5:
		msg = vcustomError{"custom"}
	}
	err := vm.convertPanic(msg)
	vassert(err != nil, "always-an-error")
	p, isPanic := err.(*PanicError)
	switch kind {
	case 0:
		se, ok := err.(stopError)
		vassert(ok && se.err == vErrStop, "stop-error-passes-through-unchanged")
	case 1:
		vassert(isPanic, "writer-error-becomes-a-PanicError")
		oe, ok := p.message.(outError)
		vassert(ok && oe.err == vErrOut, "PanicError-carries-the-writer-error")
	case 2:
		// Fatal can only be called by native code, i.e. under OpCallNative (or
		// OpCallIndirect on a native callable, outside this kernel)
		if op == OpCallNative {
			vassert(err == error(fatal), "fatal-from-native-call-is-returned-as-is")
			vassert(!isPanic, "fatal-is-never-a-recoverable-panic")
		}
	case 3:
		if op == OpGo {
			// by design every error raised while starting a goroutine ("go of nil
			// func value") is returned as it is, mimicking Go's fatal error
			break
		}
		vassert(isPanic, "runtime-error-becomes-a-PanicError")
		re, ok := p.message.(runtimeError)
		vassert(ok && re == "runtime error: something", "PanicError-carries-the-runtime-error")
	case 4, 5:
		if op == OpPanic || op == OpCallNative {
			vassert(isPanic && p.message == msg, "panic-value-is-the-message")
		}
	}
	if isPanic {
		vassert(p.path == "p.go" && p.position.Line == 7 && p.position.Column == 3, "PanicError-has-path-and-position-of-the-instruction")
		vassert(!p.recovered && p.next == nil, "fresh-PanicError")
	}
	vreach("end")
}

// Go run-time faults of integer instructions are classified as PanicError
// for the opcodes that can raise them (never fatal, never a host panic)
func vc12_divfault() {
	op := []Operation{OpDiv, OpDivInt, OpRem, OpRemInt}[vsym_choice(4)]
	vm := &VM{env: &env{}, main: true}
	vm.regs.int = []int64{0, vsym_i64(), 0, 0}
	a := int8(6) // reflect.Int64
	if op == OpDivInt || op == OpRemInt {
		a = 1
	}
	fn := &Function{Pkg: "main", Name: "f", Body: []Instruction{{Op: op, A: a, B: 2, C: 1}, {Op: OpReturn}}, InstructionInfo: map[Addr]InstructionInfo{}}
	err := vm.Run(fn, nil, nil)
	p, ok := err.(*PanicError)
	vassert(ok, "division-by-zero-is-a-PanicError")
	re, ok := p.message.(runtimeError)
	vassert(ok && re == "runtime error: integer divide by zero", "message-is-go's")
}

func vh_c12_classify_q() { vc12_classify() }
func vh_c12_divfault_q() { vc12_divfault() }
