package runtime

// C13 at the VM level: Text instructions on a failing writer. Run returns the
// writer's error itself and nothing is written after the failing write.

func vc13_vmtext(n int) {
	k := 1 + vsym_choice(n+1) // failing write index; n+1 = never
	w := &vWriter{failAt: k, err: vErrWrite}
	if k > n {
		w.failAt = 0
	}
	vm := &VM{env: &env{}, main: true}
	vm.renderer = newRenderer(w)
	var body []Instruction
	var texts [][]byte
	for i := 0; i < n; i++ {
		t := []byte(vsym_nstring(1 + i%2))
		texts = append(texts, t)
		body = append(body, Instruction{Op: OpText, A: 0, B: int8(i)})
	}
	body = append(body, Instruction{Op: OpReturn})
	fn := &Function{Pkg: "main", Name: "f", Body: body, Text: texts, InstructionInfo: map[Addr]InstructionInfo{}}
	err := vm.Run(fn, nil, nil)
	if k <= n {
		vassert(err == vErrWrite, "run-returns-the-writer-error-itself")
		vassert(w.after == 0, "no-write-after-the-failing-one")
		vassert(w.writes == k, "stops-at-the-failing-write")
	} else {
		vassert(err == nil, "no-error-when-the-writer-does-not-fail")
		var all []byte
		for _, t := range texts {
			all = append(all, t...)
		}
		vassert(string(w.buf) == string(all), "texts-written-in-order")
	}
}

func vh_c13_vmtext_q() { vc13_vmtext(3) }
func vh_c13_vmtext_t() { vc13_vmtext(5) }
