package runtime

// C13: a failing output writer aborts rendering with the writer's error; no
// write is attempted after the failing one.

func vc13(kind int, n int) {
	s := vsym_string(n)
	run := func(w *vWriter) error {
		switch kind {
		case 0:
			return showInHTML(nil, w, vStringer{s})
		case 1:
			return showInAttribute(nil, w, vStringer{s}, true)
		case 2:
			return showInAttribute(nil, w, vStringer{s}, false)
		case 3:
			return showInCSSString(nil, w, vStringer{s})
		case 4:
			return showInJSString(nil, w, vStringer{s})
		case 5:
			return showInMarkdown(nil, w, vStringer{s})
		case 6:
			return showInMarkdownCodeBlock(nil, w, vStringer{s}, true)
		case 7:
			_, err := pathEscape(w, s, true)
			return err
		case 8:
			_, err := queryEscape(w, s)
			return err
		case 9:
			return showInText(nil, w, vStringer{s})
		case 10:
			return showInTag(nil, w, vStringer{s})
		case 11:
			return escapeBytes(w, []byte(s), true)
		}
		return nil
	}
	var w0 vWriter
	vassert(run(&w0) == nil, "no-error-without-failure")
	total := w0.writes
	// every failure point 1..total, and one beyond
	k := 1 + vsym_choice(total+1)
	w1 := vWriter{failAt: k, err: vErrWrite}
	err := run(&w1)
	if k <= total {
		vassert(err == vErrWrite, "writer-error-returned")
		vassert(w1.after == 0, "no-write-after-failure")
		vassert(len(w1.buf) <= len(w0.buf) && string(w1.buf) == string(w0.buf[:len(w1.buf)]), "prefix-of-full-output")
	} else {
		vassert(err == nil, "no-error-when-writer-does-not-fail")
		vassert(string(w1.buf) == string(w0.buf), "same-output")
	}
}

func vh_c13_html_q()  { vc13(0, 3) }
func vh_c13_attrq_q() { vc13(1, 3) }
func vh_c13_attru_q() { vc13(2, 3) }
func vh_c13_css_q()   { vc13(3, 2) }
func vh_c13_js_q()    { vc13(4, 2) }
func vh_c13_md_q()    { vc13(5, 3) }
func vh_c13_mdcb_q()  { vc13(6, 3) }
func vh_c13_path_q()  { vc13(7, 2) }
func vh_c13_query_q() { vc13(8, 3) }
func vh_c13_text_q()  { vc13(9, 3) }
func vh_c13_tag_q()   { vc13(10, 2) }
func vh_c13_b64_q()   { vc13(11, 3) }

func vh_c13_html_t()  { vc13(0, 5) }
func vh_c13_attrq_t() { vc13(1, 5) }
func vh_c13_attru_t() { vc13(2, 4) }
func vh_c13_css_t()   { vc13(3, 4) }
func vh_c13_js_t()    { vc13(4, 4) }
func vh_c13_md_t()    { vc13(5, 4) }
func vh_c13_mdcb_t()  { vc13(6, 5) }
func vh_c13_path_t()  { vc13(7, 4) }
func vh_c13_query_t() { vc13(8, 4) }
func vh_c13_text_t()  { vc13(9, 5) }
func vh_c13_tag_t()   { vc13(10, 3) }
func vh_c13_b64_t()   { vc13(11, 6) }
