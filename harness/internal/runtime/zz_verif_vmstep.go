package runtime

import "reflect"

// VStep runs body followed by a Return on a fresh VM whose integer registers
// are ints (register r is ints[r]; index 0 is unused), through the real
// VM.Run: the result is the integer registers afterwards and Run's error. A
// host panic out of Run propagates to the caller.
//
// The VM is built directly (no stack allocation through reflect); only the
// integer register bank is populated, so only integer instructions may be run.
func VStep(body []Instruction, ints []int64) ([]int64, error) {
	vm := &VM{env: &env{}, main: true}
	vm.regs.int = ints
	b := make([]Instruction, 0, len(body)+1)
	b = append(b, body...)
	b = append(b, Instruction{Op: OpReturn})
	fn := &Function{Pkg: "main", Name: "f", Body: b, InstructionInfo: map[Addr]InstructionInfo{}}
	err := vm.Run(fn, nil, nil)
	return vm.regs.int, err
}

// VIsPanicError reports whether err is a *PanicError and returns its message.
func VIsPanicError(err error) (any, bool) {
	if p, ok := err.(*PanicError); ok {
		return p.message, true
	}
	return nil, false
}

// VRuntimeErrorText returns the text of msg if it is a runtimeError.
func VRuntimeErrorText(msg any) (string, bool) {
	if e, ok := msg.(runtimeError); ok {
		return string(e), true
	}
	return "", false
}

// VStepTypes is VStep with a type table.
func VStepTypes(body []Instruction, ints []int64, typs []reflect.Type) ([]int64, error) {
	vm := &VM{env: &env{}, main: true}
	vm.regs.int = ints
	b := make([]Instruction, 0, len(body)+1)
	b = append(b, body...)
	b = append(b, Instruction{Op: OpReturn})
	fn := &Function{Pkg: "main", Name: "f", Body: b, Types: typs, InstructionInfo: map[Addr]InstructionInfo{}}
	err := vm.Run(fn, nil, nil)
	return vm.regs.int, err
}

// VStepF is VStepTypes with a float register bank; it returns both banks.
func VStepF(body []Instruction, ints []int64, floats []float64, typs []reflect.Type) ([]int64, []float64, error) {
	vm := &VM{env: &env{}, main: true}
	vm.regs.int = ints
	vm.regs.float = floats
	b := make([]Instruction, 0, len(body)+1)
	b = append(b, body...)
	b = append(b, Instruction{Op: OpReturn})
	fn := &Function{Pkg: "main", Name: "f", Body: b, Types: typs, InstructionInfo: map[Addr]InstructionInfo{}}
	err := vm.Run(fn, nil, nil)
	return vm.regs.int, vm.regs.float, err
}

// VShow shows v in context ctx on a fresh renderer with a working env and
// returns the error of Show; the output is discarded.
func VShow(v any, ctx int) error {
	var w vWriter
	r := newRenderer(&w)
	return r.Show(&env{typeof: typeOfFunc}, v, Context(ctx))
}
