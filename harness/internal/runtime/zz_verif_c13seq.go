package runtime

import "github.com/open2b/scriggo/ast"

// C13 at the renderer level: the call during which the k-th write fails
// returns the writer's error (so that the VM aborts with it); no call that
// saw a failing write returns nil.

// a value, a text and a value inside a URL attribute on a writer failing at
// write k
func vc13_urlseq(n int) {
	k := 1 + vsym_choice(8)
	w := &vWriter{failAt: k, err: vErrWrite, once: vsym_bool()}
	r := newRenderer(w)
	c := Context(ast.ContextQuotedAttr) | 0x80
	if vsym_bool() {
		c = Context(ast.ContextUnquotedAttr) | 0x80
	}
	step := func(err error) bool {
		failed := w.writes >= k
		if failed {
			vassert(err == vErrWrite, "the-call-that-saw-the-failing-write-returns-the-writer-error")
			vassert(w.late == 0, "no-byte-written-after-the-failure")
			vreach("failed")
			return true
		}
		vassert(err == nil, "no-error-before-the-failing-write")
		return false
	}
	if step(r.Show(nil, vStringer{string(vurlBytes(n))}, c)) {
		return
	}
	txt := vurlBytes(n)
	vassume(len(txt) > 0)
	if step(r.Text(txt, true, false)) {
		return
	}
	if step(r.Show(nil, vStringer{string(vurlBytes(1))}, c)) {
		return
	}
	step(r.Text([]byte{'"'}, false, false))
	vreach("end")
}

type vc13S struct {
	A int    `json:"a"`
	B string `json:"b,omitempty"`
	C []int
}

// composite values in the JavaScript and JSON contexts on a writer failing at
// write k: the show returns the writer's error and nothing is written after
func vc13_composite(json bool) {
	var v any
	switch vsym_choice(6) {
	case 0:
		v = []int{1, 2, 3}
	case 1:
		v = [2]string{"a", "b"}
	case 2:
		v = map[string]int{"a": 1, "b": 2}
	case 3:
		v = vc13S{1, "x", []int{4, 5}}
	case 4:
		v = []any{nil, []int{1, 2}, map[string]any{"k": []int{3}}}
	case 5:
		v = &vc13S{C: []int{}}
	}
	var w0 vWriter
	if json {
		vassert(showInJSON(venv(), &w0, v) == nil, "shows")
	} else {
		vassert(showInJS(venv(), &w0, v) == nil, "shows")
	}
	total := w0.writes
	vassume(total > 0)
	k := 1 + vsym_choice(total)
	w := &vWriter{failAt: k, err: vErrWrite, once: vsym_bool()}
	var err error
	if json {
		err = showInJSON(venv(), w, v)
	} else {
		err = showInJS(venv(), w, v)
	}
	vassert(err == vErrWrite, "show-returns-the-writer-error-itself")
	vassert(w.late == 0, "no-byte-written-after-the-failure")
	vreach("end")
}

func vh_c13_urlseq_q()        { vc13_urlseq(2) }
func vh_c13_jscomposite_q()   { vc13_composite(false) }
func vh_c13_jsoncomposite_q() { vc13_composite(true) }
