package runtime

import "github.com/open2b/scriggo/native"

// C06: confinement lemmas — whatever string is shown, the bytes written cannot
// terminate the syntactic slot of the context.

// vanyOf reports whether b contains any byte of set (branch-free).
func vanyOf(b []byte, set string) bool {
	r := false
	for i := 0; i < len(set); i++ {
		r = vor(r, vcontains(b, set[i]))
	}
	return r
}

func vc06_html(n int) {
	s := vsym_string(n)
	var w vWriter
	vassert(showInHTML(nil, &w, vStringer{s}) == nil, "no-error")
	vassert(!vanyOf(w.buf, "<>\"'"), "html-text-no-markup-bytes")
	_, ok := vref_htmlDecode(w.buf)
	vassert(ok, "ampersand-only-in-references")
}

func vc06_attr(n int, quoted, trusted bool) {
	s := vsym_string(n)
	var w vWriter
	var v any = vStringer{s}
	if trusted {
		v = native.HTML(s)
	}
	vassert(showInAttribute(nil, &w, v, quoted) == nil, "no-error")
	if quoted {
		vassert(!vanyOf(w.buf, "\"'<>"), "quoted-attr-no-quote")
	} else {
		vassert(!vanyOf(w.buf, " \t\n\f\r\"'=<>`"), "unquoted-attr-no-terminator")
	}
	if !trusted {
		_, ok := vref_htmlDecode(w.buf)
		vassert(ok, "ampersand-only-in-references")
	}
}

// visNonchar reports whether r is a Unicode noncharacter.
func visNonchar(r rune) bool {
	return r >= 0xFDD0 && r <= 0xFDEF || r&0xFFFE == 0xFFFE && r <= 0x10FFFF
}

func vc06_tag(n int) {
	s := vsym_string(n)
	var w vWriter
	vassert(showInTag(nil, &w, vStringer{s}) == nil, "no-error")
	// HTML attribute name: no ASCII whitespace, controls, quotes, '>', '/', '='
	// and no noncharacters.
	vassert(!vanyOf(w.buf, " \t\n\f\r\"'>/=\x00\x7f"), "tag-single-attribute-name")
	ctl := false
	for i := 0; i < len(w.buf); i++ {
		ctl = vor(ctl, w.buf[i] < 0x20)
	}
	vassert(!ctl, "tag-no-control")
	for _, r := range string(w.buf) {
		vassert(!visNonchar(r), "tag-no-noncharacter")
		vassert(!(r >= 0x7F && r <= 0x9F), "tag-no-c1-control")
	}
}

// vjsBackslashRunOdd reports whether the run of backslashes ending at b[i-1]
// has odd length (so b[i] is escaped).
func vjsBackslashRunOdd(b []byte, i int) bool {
	n := 0
	for j := i - 1; j >= 0 && b[j] == '\\'; j-- {
		n++
	}
	return n%2 == 1
}

func vc06_js(n int) {
	s := vsym_string(n)
	var w vWriter
	vassert(showInJSString(nil, &w, vStringer{s}) == nil, "no-error")
	// no raw terminator: a quote may only appear as the second byte of \"
	raw := false
	for i := 0; i < len(w.buf); i++ {
		c := w.buf[i]
		esc := i > 0 && w.buf[i-1] == '\\' && vjsBackslashRunOdd(w.buf, i)
		if c == '"' && esc {
			continue
		}
		raw = vor(raw, vor(vor(c == '"', c == '\''), vor(vor(c == '\n', c == '\r'), vor(c == '<', vor(c == '>', c == '&')))))
	}
	vassert(!raw, "js-string-no-terminator")
	// U+2028 / U+2029 never appear raw (E2 80 A8 / E2 80 A9)
	ls := false
	for i := 0; i+2 < len(w.buf); i++ {
		ls = vor(ls, vand(w.buf[i] == 0xE2, vand(w.buf[i+1] == 0x80, vor(w.buf[i+2] == 0xA8, w.buf[i+2] == 0xA9))))
	}
	vassert(!ls, "js-string-no-line-separator")
	_, ok := vref_jsDecode(w.buf)
	vassert(ok, "js-escapes-well-formed")
}

func vc06_css(n int) {
	s := vsym_string(n)
	var w vWriter
	vassert(showInCSSString(nil, &w, vStringer{s}) == nil, "no-error")
	vassert(!vanyOf(w.buf, "\"'\n\r\f<>&"), "css-string-no-terminator")
	hasNUL := false
	for i := 0; i < len(s); i++ {
		hasNUL = vor(hasNUL, s[i] == 0)
	}
	if !hasNUL {
		_, ok := vref_cssDecode(w.buf)
		vassert(ok, "css-escapes-well-formed")
	}
}

// vurlSafe checks the output of the URL escapers: only URL-safe bytes, '%' and
// '&' only as the start of %HH and of an emitted character reference.
func vurlSafe(b []byte, quoted bool) bool {
	for i := 0; i < len(b); i++ {
		c := b[i]
		switch {
		case '0' <= c && c <= '9' || 'a' <= c && c <= 'z' || 'A' <= c && c <= 'Z':
		case c == '%':
			if i+2 >= len(b) || vhexval(b[i+1]) < 0 || vhexval(b[i+2]) < 0 {
				return false
			}
		case c == '&':
			rest := string(b[i:])
			if !(len(rest) >= 5 && (rest[:5] == "&amp;" || rest[:5] == "&#43;" || rest[:5] == "&#32;")) {
				return false
			}
			i += 4
		case c == ' ':
			if !quoted {
				return false
			}
		case c == '!' || c == '#' || c == '$' || c == '*' || c == ',' || c == '-' || c == '.' || c == '/' ||
			c == ':' || c == ';' || c == '=' || c == '?' || c == '@' || c == '[' || c == ']' || c == '_' || c == '~':
		default:
			return false
		}
	}
	return true
}

func vc06_path(n int, quoted bool) {
	s := vsym_string(n)
	var w vWriter
	k, err := pathEscape(&w, s, quoted)
	vassert(err == nil && k == len(w.buf), "count")
	vassert(vurlSafe(w.buf, quoted), "url-path-safe-bytes")
}

func vc06_query(n int) {
	s := vsym_string(n)
	var w vWriter
	_, err := queryEscape(&w, s)
	vassert(err == nil, "no-error")
	bad := false
	for i := 0; i < len(w.buf); i++ {
		c := w.buf[i]
		okc := vor(vor(vand('0' <= c, c <= '9'), vor(vand('a' <= c, c <= 'z'), vand('A' <= c, c <= 'Z'))),
			vor(vor(c == '-', c == '.'), vor(c == '_', c == '%')))
		bad = vor(bad, !okc)
	}
	vassert(!bad, "query-unreserved-or-percent")
}

// vc06_ctx: the compiler and the runtime keep two copies of the render
// context decoding "in sync" by comment only.
func vh_c06_ctxcodec_q() {
	c := Context(vsym_u8())
	ctx, inURL, isSet := decodeRenderContext(c)
	vassert(uint8(ctx) == uint8(c)&0x0F, "ctx-low-nibble")
	vassert(inURL == (uint8(c)&0x80 != 0), "inurl-bit")
	vassert(isSet == (inURL && uint8(c)&0x40 != 0), "urlset-bit")
}

func vh_c06_html_q()   { vc06_html(4) }
func vh_c06_html_t()   { vc06_html(7) }
func vh_c06_attrqs_q() { vc06_attr(4, true, false) }
func vh_c06_attrqs_t() { vc06_attr(6, true, false) }
func vh_c06_attrqh_q() { vc06_attr(4, true, true) }
func vh_c06_attrqh_t() { vc06_attr(6, true, true) }
func vh_c06_attrus_q() { vc06_attr(3, false, false) }
func vh_c06_attrus_t() { vc06_attr(5, false, false) }
func vh_c06_attruh_q() { vc06_attr(3, false, true) }
func vh_c06_attruh_t() { vc06_attr(5, false, true) }
func vh_c06_tag_q()    { vc06_tag(3) }
func vh_c06_tag_t()    { vc06_tag(4) }
func vh_c06_js_q()     { vc06_js(3) }
func vh_c06_js_t()     { vc06_js(4) }
func vh_c06_css_q()    { vc06_css(3) }
func vh_c06_css_t()    { vc06_css(4) }
func vh_c06_pathq_q()  { vc06_path(3, true) }
func vh_c06_pathq_t()  { vc06_path(4, true) }
func vh_c06_pathu_q()  { vc06_path(3, false) }
func vh_c06_pathu_t()  { vc06_path(4, false) }
func vh_c06_query_q()  { vc06_query(4) }
func vh_c06_query_t()  { vc06_query(5) }
