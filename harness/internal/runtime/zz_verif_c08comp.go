package runtime

// C08 (composites): slices, arrays, maps, pointers and structs with json tags
// render, in the JavaScript and in the JSON context, as the compact literal
// that encoding/json produces for the same value (the expected text is
// written by hand per shape from the documented rules of encoding/json:
// field order, tag names, "-", omitempty, nil slices/maps/pointers as null,
// keys sorted).

func v8itoa(n int) string {
	if n == 0 {
		return "0"
	}
	neg := n < 0
	if neg {
		n = -n
	}
	var b []byte
	for n > 0 {
		b = append([]byte{byte('0' + n%10)}, b...)
		n /= 10
	}
	if neg {
		return "-" + string(b)
	}
	return string(b)
}

func v8small() int {
	x := int(vsym_i8())
	vassume(-2 <= x && x <= 11)
	return x
}

// v8word is a string of 0..2 lower-case letters (nothing to escape)
func v8word() string {
	s := vsym_string(2)
	for i := 0; i < len(s); i++ {
		vassume('a' <= s[i] && s[i] <= 'z')
	}
	return s
}

type v8S struct {
	A int            `json:"a"`
	B string         `json:"b,omitempty"`
	C any            `json:"c,omitempty"`
	D *int           `json:"d"`
	e int
	F []int          `json:"-"`
	G bool           `json:",omitempty"`
	H []int          `json:"h,omitempty"`
	I map[string]int `json:"i,omitempty"`
	K uint8          `json:"k,omitempty"`
	L *int           `json:"l,omitempty"`
	M any            `json:"m"`
	N [0]int         `json:"n,omitempty"`
	O int            `json:"-,"`
	P string         `json:"-,omitempty"`
}

func v8bool(b bool) string {
	if b {
		return "true"
	}
	return "false"
}

func vc08_composite(json bool, lo, hi int) {
	var v any
	var want string
	switch lo + vsym_choice(hi-lo) {
	case 0:
		a, b := v8small(), v8small()
		v, want = []int{a, b}, "["+v8itoa(a)+","+v8itoa(b)+"]"
	case 1:
		v, want = []int{}, "[]"
	case 2:
		v, want = []int(nil), "null"
	case 3:
		x, y := vsym_bool(), vsym_bool()
		v, want = [2]bool{x, y}, "["+v8bool(x)+","+v8bool(y)+"]"
	case 4:
		s := v8word()
		v, want = [][]string{{s}, {}}, "[[\""+s+"\"],[]]"
	case 5:
		k1, k2 := v8word(), v8word()
		vassume(k1 != k2)
		a, b := v8small(), v8small()
		first, second := "\""+k1+"\":"+v8itoa(a), "\""+k2+"\":"+v8itoa(b)
		if k2 < k1 {
			first, second = second, first
		}
		v, want = map[string]int{k1: a, k2: b}, "{"+first+","+second+"}"
	case 6:
		v, want = map[string]int(nil), "null"
	case 7:
		v, want = map[string]bool{}, "{}"
	case 8:
		var p *int
		v, want = p, "null"
	case 9:
		a := v8small()
		p := &a
		v, want = &p, v8itoa(a)
	case 10:
		var s v8S
		s.A, s.e, s.F = 4, 7, []int{1}
		d, l := 5, 0
		// one field group varies at a time, the others keep fixed values
		switch vsym_choice(8) {
		case 0:
			s.A = v8small()
			s.B = v8word()
		case 1:
			switch vsym_choice(5) {
			case 1:
				s.C = 0
			case 2:
				s.C = ""
			case 3:
				s.C = false
			case 4:
				s.C = []int{}
			}
		case 2:
			d = v8small()
			if vsym_bool() {
				s.D = &d
			}
		case 3:
			s.G = vsym_bool()
			s.K = uint8(v8small() & 3)
		case 4:
			switch vsym_choice(3) {
			case 1:
				s.H = []int{}
			case 2:
				s.H = []int{3}
			}
		case 5:
			if vsym_bool() {
				s.I = map[string]int{}
			}
		case 6:
			if vsym_bool() {
				s.L = &l
			}
		case 7:
			s.B = "w"
			if vsym_bool() {
				s.M = s.B
			}
		}
		want = "{\"a\":" + v8itoa(s.A)
		if s.B != "" {
			want += ",\"b\":\"" + s.B + "\""
		}
		switch c := s.C.(type) {
		case int:
			want += ",\"c\":" + v8itoa(c)
		case string:
			want += ",\"c\":\"" + c + "\""
		case bool:
			want += ",\"c\":" + v8bool(c)
		case []int:
			want += ",\"c\":[]"
		}
		if s.D == nil {
			want += ",\"d\":null"
		} else {
			want += ",\"d\":" + v8itoa(d)
		}
		if s.G {
			want += ",\"G\":true"
		}
		if len(s.H) > 0 {
			want += ",\"h\":[3]"
		}
		if s.K != 0 {
			want += ",\"k\":" + v8itoa(int(s.K))
		}
		if s.L != nil {
			want += ",\"l\":0"
		}
		if s.M == nil {
			want += ",\"m\":null"
		} else {
			want += ",\"m\":\"" + s.B + "\""
		}
		want += ",\"-\":0}"
		if vsym_bool() {
			v = &s
		} else {
			v = s
		}
	case 11:
		a := v8small()
		v, want = []any{nil, a, "x", []int(nil), map[string]any{"k": nil}}, "[null,"+v8itoa(a)+",\"x\",null,{\"k\":null}]"
	case 12:
		k := v8small()
		v, want = map[int]string{k: "v", 100: "w"}, ""
		ks := v8itoa(k)
		if ks < "100" {
			want = "{\"" + ks + "\":\"v\",\"100\":\"w\"}"
		} else {
			want = "{\"100\":\"w\",\"" + ks + "\":\"v\"}"
		}
	}
	got := string(vshowJS(json, v))
	vassert(got == want, "composite-literal-as-encoding/json")
	vreach("end")
}

func vh_c08_jscomposite_q()    { vc08_composite(false, 0, 10) }
func vh_c08_jsoncomposite_q()  { vc08_composite(true, 0, 10) }
func vh_c08_jsstruct_q()       { vc08_composite(false, 10, 13) }
func vh_c08_jsonstruct_q()     { vc08_composite(true, 10, 13) }
