package runtime

import "reflect"

// C05 (ALU part): any integer ALU instruction on arbitrary register contents
// either completes or ends in a *PanicError; Run never panics into the host
// and never returns another kind of error.

func vc05_alu() {
	generic := []Operation{OpAdd, OpSub, OpSubInv, OpMul, OpDiv, OpRem, OpShl, OpShr, OpNeg}
	intForm := []Operation{OpAddInt, OpSubInt, OpSubInvInt, OpMulInt, OpDivInt, OpRemInt, OpShlInt, OpShrInt, OpAnd, OpAndNot, OpOr, OpXor}
	kinds := []reflect.Kind{reflect.Int8, reflect.Int16, reflect.Int32, reflect.Int64, reflect.Uint8, reflect.Uint16, reflect.Uint32, reflect.Uint64}
	var in Instruction
	k := vsym_bool()
	if vsym_bool() {
		in.Op = generic[vsym_choice(len(generic))]
		in.A = int8(kinds[vsym_choice(len(kinds))])
		in.C = 1
	} else {
		in.Op = intForm[vsym_choice(len(intForm))]
		in.A = 1
		in.C = 3
	}
	in.B = 2
	if k && in.Op != OpNeg {
		imm := vsym_i8()
		if in.Op == OpDiv || in.Op == OpDivInt || in.Op == OpRem || in.Op == OpRemInt {
			vassume(imm != 0) // a constant zero divisor is rejected at build time
		}
		in.B = imm
		in.Op = -in.Op
	}
	vm := &VM{env: &env{}, main: true}
	vm.regs.int = []int64{0, vsym_i64(), vsym_i64(), vsym_i64()}
	fn := &Function{Pkg: "main", Name: "f", Body: []Instruction{in, {Op: OpReturn}}, InstructionInfo: map[Addr]InstructionInfo{}}
	err := vm.Run(fn, nil, nil) // a host panic here is reported by the engine as an uncaught panic
	if err != nil {
		_, ok := err.(*PanicError)
		vassert(ok, "a-fault-is-a-PanicError")
	}
	vreach("end")
}

func vh_c05_alu_q() { vc05_alu() }
