package runtime

// C07: escaped values decode back to the exact original text.

// vref_cssDecode decodes CSS escapes in a string token per CSS Syntax 3 §4.3.7:
// '\' followed by 1-6 hex digits and one optional whitespace, or '\' followed
// by any other code point. Code points >= 0x80 are not produced by the
// escaper (it escapes only ASCII), so a decoded escape value is kept as one
// byte when < 0x80 and flagged otherwise.
func vref_cssDecode(b []byte) (out []byte, ok bool) {
	ok = true
	for i := 0; i < len(b); {
		c := b[i]
		if c != '\\' {
			out = append(out, c)
			i++
			continue
		}
		i++
		if i >= len(b) {
			return out, false // escape at end of string
		}
		if vhexval(b[i]) < 0 {
			if b[i] == '\n' {
				return out, false
			}
			out = append(out, b[i])
			i++
			continue
		}
		v := 0
		n := 0
		for i < len(b) && n < 6 && vhexval(b[i]) >= 0 {
			v = v*16 + vhexval(b[i])
			i++
			n++
		}
		if i < len(b) && (b[i] == ' ' || b[i] == '\t' || b[i] == '\n' || b[i] == '\f' || b[i] == '\r') {
			i++
		}
		if v == 0 || v >= 0x80 {
			return out, false
		}
		out = append(out, byte(v))
	}
	return out, ok
}

func vc07_css(n int) {
	s := vsym_string(n)
	// NUL cannot be represented in CSS (decodes to U+FFFD by specification).
	for i := 0; i < len(s); i++ {
		vassume(s[i] != 0)
	}
	var w vWriter
	err := cssStringEscape(&w, s)
	vassert(err == nil, "no-error")
	dec, ok := vref_cssDecode(w.buf)
	vassert(ok, "well-formed-escapes")
	vassert(string(dec) == s, "css-roundtrip")
}

func vh_c07_css_q() { vc07_css(2) }
func vh_c07_css_t() { vc07_css(4) }

