package runtime

import "github.com/open2b/scriggo/ast"

// C07: escaped values decode back to the exact original text.

// vref_cssDecode decodes CSS escapes in a string token per CSS Syntax 3 §4.3.7:
// '\' followed by 1-6 hex digits and one optional whitespace, or '\' followed
// by any other code point. The escaper only escapes ASCII, so a decoded escape
// must be a non-zero value < 0x80.
func vref_cssDecode(b []byte) (out []byte, ok bool) {
	for i := 0; i < len(b); {
		c := b[i]
		if c != '\\' {
			out = append(out, c)
			i++
			continue
		}
		i++
		if i >= len(b) {
			return out, false // escape at end of string
		}
		if vhexval(b[i]) < 0 {
			if b[i] == '\n' || b[i] == '\r' || b[i] == '\f' {
				return out, false // escaped newline is a line continuation
			}
			out = append(out, b[i])
			i++
			continue
		}
		v := 0
		n := 0
		for i < len(b) && n < 6 && vhexval(b[i]) >= 0 {
			v = v*16 + vhexval(b[i])
			i++
			n++
		}
		if i < len(b) && (b[i] == ' ' || b[i] == '\t' || b[i] == '\n' || b[i] == '\f' || b[i] == '\r') {
			i++
		}
		if v == 0 || v >= 0x80 {
			return out, false
		}
		out = append(out, byte(v))
	}
	return out, true
}

// vref_jsDecode decodes a JavaScript/JSON string literal body. \uXXXX is
// decoded to UTF-8 (only BMP non-surrogates are produced by the escaper).
func vref_jsDecode(b []byte) (out []byte, ok bool) {
	for i := 0; i < len(b); {
		c := b[i]
		if c != '\\' {
			out = append(out, c)
			i++
			continue
		}
		i++
		if i >= len(b) {
			return out, false
		}
		switch b[i] {
		case 'b':
			out = append(out, '\b')
		case 'f':
			out = append(out, '\f')
		case 'n':
			out = append(out, '\n')
		case 'r':
			out = append(out, '\r')
		case 't':
			out = append(out, '\t')
		case '"', '\\', '/':
			out = append(out, b[i])
		case 'u':
			if i+4 >= len(b) {
				return out, false
			}
			v := 0
			for k := 1; k <= 4; k++ {
				h := vhexval(b[i+k])
				if h < 0 {
					return out, false
				}
				v = v*16 + h
			}
			i += 4
			switch {
			case v < 0x80:
				out = append(out, byte(v))
			case v < 0x800:
				out = append(out, byte(0xC0|v>>6), byte(0x80|v&0x3F))
			case v >= 0xD800 && v < 0xE000:
				return out, false
			default:
				out = append(out, byte(0xE0|v>>12), byte(0x80|(v>>6)&0x3F), byte(0x80|v&0x3F))
			}
		default:
			return out, false // not a JSON escape
		}
		i++
	}
	return out, true
}

// vref_percentDecode decodes %XX sequences; anything else is kept.
func vref_percentDecode(b []byte) (out []byte, ok bool) {
	for i := 0; i < len(b); {
		if b[i] != '%' {
			out = append(out, b[i])
			i++
			continue
		}
		if i+2 >= len(b) || vhexval(b[i+1]) < 0 || vhexval(b[i+2]) < 0 {
			return out, false
		}
		out = append(out, byte(vhexval(b[i+1])<<4|vhexval(b[i+2])))
		i += 3
	}
	return out, true
}

// vref_queryDecode decodes a query component: percent escapes, and '+' for a
// space (application/x-www-form-urlencoded, what servers apply to queries).
func vref_queryDecode(b []byte) (out []byte, ok bool) {
	out, ok = vref_percentDecode(b)
	for i, c := range b {
		_ = i
		if c == '+' {
			// a raw '+' can only stand for a space: find it in the decoded text
			for j := range out {
				if out[j] == '+' {
					out[j] = ' '
					break
				}
			}
		}
	}
	return out, ok
}

func vc07_css(n int) {
	s := vsym_string(n)
	// NUL cannot be represented in CSS (it decodes to U+FFFD by specification).
	for i := 0; i < len(s); i++ {
		vassume(s[i] != 0)
	}
	var w vWriter
	err := showInCSSString(nil, &w, vStringer{s})
	vassert(err == nil, "no-error")
	dec, ok := vref_cssDecode(w.buf)
	vassert(ok, "well-formed-escapes")
	vassert(string(dec) == s, "css-roundtrip")
}

func vc07_html(n int) {
	s := vsym_string(n)
	var w vWriter
	err := showInHTML(nil, &w, vStringer{s})
	vassert(err == nil, "no-error")
	dec, ok := vref_htmlDecode(w.buf)
	vassert(ok, "well-formed-references")
	vassert(string(dec) == s, "html-roundtrip")
}

func vc07_attr(n int, quoted bool) {
	s := vsym_string(n)
	var w vWriter
	err := showInAttribute(nil, &w, vStringer{s}, quoted)
	vassert(err == nil, "no-error")
	dec, ok := vref_htmlDecode(w.buf)
	vassert(ok, "well-formed-references")
	vassert(string(dec) == s, "attr-roundtrip")
}

func vc07_js(n int) {
	s := vsym_string(n)
	var w vWriter
	err := showInJSString(nil, &w, vStringer{s})
	vassert(err == nil, "no-error")
	dec, ok := vref_jsDecode(w.buf)
	vassert(ok, "well-formed-escapes")
	vassert(string(dec) == s, "js-roundtrip")
	var w2 vWriter
	err = showInJSONString(nil, &w2, vStringer{s})
	vassert(err == nil && string(w2.buf) == string(w.buf), "json-same-as-js")
}

func vc07_query(n int) {
	s := vsym_string(n)
	var w vWriter
	k, err := queryEscape(&w, s)
	vassert(err == nil && k == len(w.buf), "count")
	dec, ok := vref_percentDecode(w.buf)
	vassert(ok, "well-formed-escapes")
	vassert(string(dec) == s, "query-roundtrip")
}

// a plain string shown as the value of a query parameter, through the
// renderer's URL machine: the rendered bytes, decoded as the browser does
// (character references, then percent-decoding), give back the string
func vc07_urlvalue(n int, quoted bool) {
	s := vsym_string(n)
	var w vWriter
	r := newRenderer(&w)
	vassert(r.Text([]byte("/p?q="), true, false) == nil, "prefix-written")
	pre := len(w.buf)
	ctx := Context(ast.ContextUnquotedAttr)
	if quoted {
		ctx = Context(ast.ContextQuotedAttr)
	}
	vassert(r.Show(&env{typeof: typeOfFunc}, s, ctx|0x80) == nil, "value-shown")
	out := w.buf[pre:]
	h, ok := vref_htmlDecode(out)
	vassert(ok, "well-formed-character-references")
	dec, ok := vref_queryDecode(h)
	vassert(ok, "well-formed-percent-escapes")
	vassert(string(dec) == s, "url-query-value-roundtrip")
}

// the same for a value that follows a *shown* base URL containing '?' and a
// literal text that does not start with '?': it is a query value as well
func vc07_urlvalue_shownbase(n int, quoted bool) {
	s := vsym_string(n)
	var w vWriter
	r := newRenderer(&w)
	ctx := Context(ast.ContextUnquotedAttr)
	if quoted {
		ctx = Context(ast.ContextQuotedAttr)
	}
	e := &env{typeof: typeOfFunc}
	base := []string{"/p?a=1", "?a", "/p?a=1&b=2"}[vsym_choice(3)]
	vassert(r.Show(e, base, ctx|0x80) == nil, "base-shown")
	txt := []string{"&v=", "&amp;v=", "v="}[vsym_choice(3)]
	vassert(r.Text([]byte(txt), true, false) == nil, "text-written")
	pre := len(w.buf)
	vassert(r.Show(e, s, ctx|0x80) == nil, "value-shown")
	out := w.buf[pre:]
	h, ok := vref_htmlDecode(out)
	vassert(ok, "well-formed-character-references")
	dec, ok := vref_queryDecode(h)
	vassert(ok, "well-formed-percent-escapes")
	vassert(string(dec) == s, "url-query-value-after-a-shown-base-roundtrip")
}

func vh_c07_urlvalbq_q() { vc07_urlvalue_shownbase(2, true) }
func vh_c07_urlvalbu_q() { vc07_urlvalue_shownbase(2, false) }
func vh_c07_urlvalq_q() { vc07_urlvalue(3, true) }
func vh_c07_urlvalu_q() { vc07_urlvalue(3, false) }
func vh_c07_urlvalq_t() { vc07_urlvalue(4, true) }
func vh_c07_urlvalu_t() { vc07_urlvalue(3, false) }
func vh_c07_css_q()   { vc07_css(3) }
func vh_c07_css_t()   { vc07_css(5) }
func vh_c07_html_q()  { vc07_html(4) }
func vh_c07_html_t()  { vc07_html(7) }
func vh_c07_attrq_q() { vc07_attr(4, true) }
func vh_c07_attrq_t() { vc07_attr(7, true) }
func vh_c07_attru_q() { vc07_attr(3, false) }
func vh_c07_attru_t() { vc07_attr(5, false) }
func vh_c07_js_q()    { vc07_js(3) }
func vh_c07_js_t()    { vc07_js(5) }
func vh_c07_query_q() { vc07_query(3) }
func vh_c07_query_t() { vc07_query(4) }
