package runtime

import "github.com/open2b/scriggo/ast"

// C05 (renderer part): the URL state machine of the renderer never raises a Go
// run-time panic, whatever texts and values follow each other in a URL
// attribute.

func vc05_url(k, n int) {
	var w vWriter
	r := newRenderer(&w)
	for i := 0; i < k; i++ {
		isSet := vsym_bool()
		switch vsym_choice(4) {
		case 0:
			txt := vsym_bytes(n)
			vassume(len(txt) > 0) // the emitter never emits an empty text (checked by C15)
			_ = r.Text(txt, true, isSet)
		case 1:
			c := Context(ast.ContextQuotedAttr) | 0x80
			if isSet {
				c |= 0x40
			}
			_ = r.Show(nil, vStringer{vsym_string(n)}, c)
		case 2:
			c := Context(ast.ContextUnquotedAttr) | 0x80
			if isSet {
				c |= 0x40
			}
			_ = r.Show(nil, vStringer{vsym_string(n)}, c)
		case 3:
			txt := vsym_bytes(1)
			vassume(len(txt) > 0)
			_ = r.Text(txt, false, false)
		}
		// the flags are only meaningful inside a URL
		vassert(r.inURL || (!r.query && !r.addAmpersand && !r.removeQuestionMark), "url-flags-reset-outside-url")
	}
}

// vurlBytes returns up to n bytes over the alphabet the URL state machine
// distinguishes: '?', '&', '=', '#', 'a'.
func vurlBytes(n int) []byte {
	b := vsym_bytes(n)
	for _, c := range b {
		vassume(c == '?' || c == '&' || c == '=' || c == '#' || c == 'a')
	}
	return b
}

// a value, a text and a value again inside one URL attribute (quoted or
// not), each up to n bytes over the alphabet above: no run-time panic
func vc05_urlseq(n int) {
	var w vWriter
	r := newRenderer(&w)
	c := Context(ast.ContextQuotedAttr) | 0x80
	if vsym_bool() {
		c = Context(ast.ContextUnquotedAttr) | 0x80
	}
	isSet := vsym_bool()
	_ = r.Show(nil, vStringer{string(vurlBytes(n))}, c)
	txt := vurlBytes(n)
	vassume(len(txt) > 0)
	_ = r.Text(txt, true, isSet)
	_ = r.Show(nil, vStringer{string(vurlBytes(1))}, c)
	_ = r.Text([]byte{'"'}, false, false)
	vassert(!r.query && !r.addAmpersand && !r.removeQuestionMark, "url-flags-reset-outside-url")
	vreach("end")
}

// the URL escapers on arbitrary strings: no run-time panic
func vc05_escapers(n int) {
	s := vsym_string(n)
	var w vWriter
	_, _ = pathEscape(&w, s, true)
	_, _ = pathEscape(&w, s, false)
	_, _ = queryEscape(&w, s)
}

func vh_c05_escapers_q() { vc05_escapers(3) }
func vh_c05_escapers_t() { vc05_escapers(5) }
func vh_c05_url_q() { vc05_url(2, 1) }
func vh_c05_url_t() { vc05_url(3, 1) }
func vh_c05_url2_t() { vc05_url(1, 3) }
func vh_c05_urlseq_q() { vc05_urlseq(2) }
func vh_c05_urlseq_t() { vc05_urlseq(3) }






