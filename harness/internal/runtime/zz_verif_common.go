package runtime

import "errors"

// vWriter is an io.Writer / strWriter that records what is written and can be
// told to fail at the k-th write.
type vWriter struct {
	buf      []byte
	writes   int
	failAt   int // 1-based index of the write that fails; 0 = never
	err      error
	after    int // writes attempted after the failing one
	accepted int // bytes accepted before the failure
	once     bool // only the k-th write fails; later writes are accepted and counted
	late     int  // bytes accepted after the failing write (once)
}

func (w *vWriter) Write(b []byte) (int, error) {
	w.writes++
	if w.failAt > 0 && w.writes == w.failAt {
		return 0, w.err
	}
	if w.failAt > 0 && w.writes > w.failAt {
		w.after++
		if !w.once {
			return 0, w.err
		}
		w.late += len(b)
	}
	w.buf = append(w.buf, b...)
	return len(b), nil
}

func (w *vWriter) WriteString(s string) (int, error) {
	w.writes++
	if w.failAt > 0 && w.writes == w.failAt {
		return 0, w.err
	}
	if w.failAt > 0 && w.writes > w.failAt {
		w.after++
		if !w.once {
			return 0, w.err
		}
		w.late += len(s)
	}
	w.buf = append(w.buf, s...)
	return len(s), nil
}

var vErrWrite = errors.New("verif: writer failed")

// vStringer is an untrusted value: a fmt.Stringer whose text is arbitrary.
type vStringer struct{ s string }

func (v vStringer) String() string { return v.s }

func vhexval(c byte) int {
	switch {
	case '0' <= c && c <= '9':
		return int(c - '0')
	case 'a' <= c && c <= 'f':
		return int(c-'a') + 10
	case 'A' <= c && c <= 'F':
		return int(c-'A') + 10
	}
	return -1
}

func visHex(c byte) bool {
	return vor(vor(vand('0' <= c, c <= '9'), vand('a' <= c, c <= 'f')), vand('A' <= c, c <= 'F'))
}

// vcontains reports, without branching on the bytes, whether b contains c.
func vcontains(b []byte, c byte) bool {
	r := false
	for i := 0; i < len(b); i++ {
		r = vor(r, b[i] == c)
	}
	return r
}

// vref_htmlDecode decodes the character references HTML defines for the
// escapers' output: decimal numeric references and the named references
// amp, lt, gt, quot, apos. Any other use of '&' is reported as malformed, so a
// raw '&' that survived escaping is caught.
func vref_htmlDecode(b []byte) (out []byte, ok bool) {
	for i := 0; i < len(b); {
		c := b[i]
		if c != '&' {
			out = append(out, c)
			i++
			continue
		}
		j := i + 1
		for j < len(b) && b[j] != ';' && j-i < 8 {
			j++
		}
		if j >= len(b) || b[j] != ';' {
			return out, false
		}
		name := string(b[i+1 : j])
		switch name {
		case "amp":
			out = append(out, '&')
		case "lt":
			out = append(out, '<')
		case "gt":
			out = append(out, '>')
		case "quot":
			out = append(out, '"')
		case "apos":
			out = append(out, '\'')
		default:
			if len(name) < 2 || name[0] != '#' {
				return out, false
			}
			v := 0
			for k := 1; k < len(name); k++ {
				d := name[k]
				if d < '0' || d > '9' {
					return out, false
				}
				v = v*10 + int(d-'0')
			}
			if v == 0 || v > 255 {
				return out, false
			}
			out = append(out, byte(v))
		}
		i = j + 1
	}
	return out, true
}
