package runtime

// vWriter is a strWriter that records what is written.
type vWriter struct {
	buf    []byte
	writes int
}

func (w *vWriter) Write(b []byte) (int, error) {
	w.writes++
	w.buf = append(w.buf, b...)
	return len(b), nil
}

func (w *vWriter) WriteString(s string) (int, error) {
	w.writes++
	w.buf = append(w.buf, s...)
	return len(s), nil
}

func vhexval(c byte) int {
	switch {
	case '0' <= c && c <= '9':
		return int(c - '0')
	case 'a' <= c && c <= 'f':
		return int(c-'a') + 10
	case 'A' <= c && c <= 'F':
		return int(c-'A') + 10
	}
	return -1
}
