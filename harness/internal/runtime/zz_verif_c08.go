package runtime

import "math"

// C08 (reduced): values of the basic kinds shown in the JavaScript and JSON
// contexts are valid literals for the same data.

func venv() *env { return &env{typeof: typeOfFunc} }

// vjsonNumber reports whether b is a JSON number (RFC 8259).
func vjsonNumber(b []byte) bool {
	i := 0
	if i < len(b) && b[i] == '-' {
		i++
	}
	if i >= len(b) {
		return false
	}
	if b[i] == '0' {
		i++
	} else if '1' <= b[i] && b[i] <= '9' {
		for i < len(b) && '0' <= b[i] && b[i] <= '9' {
			i++
		}
	} else {
		return false
	}
	if i < len(b) && b[i] == '.' {
		i++
		n := 0
		for i < len(b) && '0' <= b[i] && b[i] <= '9' {
			i++
			n++
		}
		if n == 0 {
			return false
		}
	}
	if i < len(b) && (b[i] == 'e' || b[i] == 'E') {
		i++
		if i < len(b) && (b[i] == '+' || b[i] == '-') {
			i++
		}
		n := 0
		for i < len(b) && '0' <= b[i] && b[i] <= '9' {
			i++
			n++
		}
		if n == 0 {
			return false
		}
	}
	return i == len(b)
}

func vshowJS(json bool, v any) []byte {
	var w vWriter
	var err error
	if json {
		err = showInJSON(venv(), &w, v)
	} else {
		err = showInJS(venv(), &w, v)
	}
	vassert(err == nil, "no-error")
	return w.buf
}

// strings: a double-quoted literal whose body uses only JSON escapes and
// decodes to the string
func vc08_string(n int, json bool) {
	s := vsym_string(n)
	out := vshowJS(json, s)
	vassert(len(out) >= 2 && out[0] == '"' && out[len(out)-1] == '"', "quoted")
	body := out[1 : len(out)-1]
	for i := 0; i < len(body); i++ {
		c := body[i]
		vassert(c >= 0x20 && c != '"' && c != '<' && c != '>' && c != '&', "no-raw-control-quote-or-markup-byte")
		if c == '\\' {
			i++ // the escaped byte is judged by the decoder
		}
	}
	dec, ok := vref_jsDecode(body)
	vassert(ok, "only-json-escapes")
	vassert(string(dec) == s, "decodes-to-the-string")
}

func vc08_scalars(json bool) {
	vassert(string(vshowJS(json, nil)) == "null", "nil-is-null")
	b := vsym_bool()
	want := "false"
	if b {
		want = "true"
	}
	vassert(string(vshowJS(json, b)) == want, "bool-literal")
	// integers of every kind: a JSON number, negative exactly when the value is
	var out []byte
	neg := false
	switch vsym_choice(11) {
	case 0:
		x := int(vsym_i64())
		out, neg = vshowJS(json, x), x < 0
	case 1:
		x := vsym_i8()
		out, neg = vshowJS(json, x), x < 0
	case 2:
		x := vsym_i16()
		out, neg = vshowJS(json, x), x < 0
	case 3:
		x := vsym_i32()
		out, neg = vshowJS(json, x), x < 0
	case 4:
		x := vsym_i64()
		out, neg = vshowJS(json, x), x < 0
	case 5:
		out = vshowJS(json, uint(vsym_u64()))
	case 6:
		out = vshowJS(json, vsym_u8())
	case 7:
		out = vshowJS(json, vsym_u16())
	case 8:
		out = vshowJS(json, vsym_u32())
	case 9:
		out = vshowJS(json, vsym_u64())
	case 10:
		out = vshowJS(json, uintptr(vsym_u64()))
	}
	vassert(vjsonNumber(out), "integer-is-a-number-literal")
	vassert((len(out) > 0 && out[0] == '-') == neg, "sign")
}

// floats: a catalogue of special values (formatting itself is the standard
// library's, executed concretely)
func vc08_floats(json bool) {
	vals := []float64{0, math.Copysign(0, -1), 1.5, -2.25, 1e21, 1e-7, math.MaxFloat64, math.SmallestNonzeroFloat64, math.NaN(), math.Inf(1), math.Inf(-1)}
	i := vsym_choice(len(vals))
	f := vals[i]
	var out []byte
	if vsym_bool() {
		out = vshowJS(json, f)
	} else {
		out = vshowJS(json, float32(f))
	}
	s := string(out)
	if json {
		vassert(vjsonNumber(out), "float-is-a-json-number")
		return
	}
	// JavaScript: a numeric literal, or NaN, Infinity, -Infinity
	vassert(vjsonNumber(out) || s == "NaN" || s == "Infinity" || s == "-Infinity", "float-is-a-javascript-numeric-expression")
}

func vh_c08_jsstring_q()   { vc08_string(3, false) }
func vh_c08_jsonstring_q() { vc08_string(3, true) }
func vh_c08_jsscalars_q()  { vc08_scalars(false) }
func vh_c08_jsonscalars_q() { vc08_scalars(true) }
func vh_c08_jsfloats_q()   { vc08_floats(false) }
func vh_c08_jsonfloats_q() { vc08_floats(true) }
func vh_c08_jsstring_t()   { vc08_string(5, false) }
func vh_c08_jsonstring_t() { vc08_string(5, true) }
