package runtime

import "github.com/open2b/scriggo/native"

// C26: Markdown escaping neutralises Markdown syntax (the local lemma).

// vmdSignificant: the ASCII punctuation that can open a CommonMark inline or
// block construct (CommonMark 0.31 §2.4, §4, §6), plus '&' and '<' (entities,
// raw HTML, autolinks).
func vmdSignificant(c byte) bool {
	switch c {
	case '\\', '`', '*', '_', '{', '}', '[', ']', '(', ')', '#', '+', '-', '.', '!', '|', '<', '>', '~', '=', '&':
		return true
	}
	return false
}

func visASCIIPunct(c byte) bool {
	return c >= '!' && c <= '/' || c >= ':' && c <= '@' || c >= '[' && c <= '`' || c >= '{' && c <= '~'
}

// vc26_escape: allowHTML == false.
func vc26_escape(n int) {
	s := vsym_string(n)
	var w vWriter
	if vsym_bool() {
		// a plain string goes through the renderer's default branch
		vassert(showInMarkdown(venv(), &w, s) == nil, "no-error")
	} else {
		vassert(showInMarkdown(nil, &w, vStringer{s}) == nil, "no-error")
	}
	out := w.buf
	// parse the output: backslash escapes, NBSP, raw bytes
	var text []byte // reconstructed text with whitespace normalised to ' '
	for i := 0; i < len(out); {
		c := out[i]
		switch {
		case c == '\\':
			vassert(i+1 < len(out), "no-trailing-backslash")
			vassert(visASCIIPunct(out[i+1]), "backslash-escapes-punctuation-only")
			text = append(text, out[i+1])
			i += 2
		case c == 0xC2 && i+1 < len(out) && out[i+1] == 0xA0:
			text = append(text, ' ')
			i += 2
		default:
			vassert(!vmdSignificant(c), "significant-byte-is-escaped")
			if c == ' ' || c == '\t' {
				// an ASCII space/tab survives only between two non-space bytes
				vassert(i > 0 && i+1 < len(out), "no-leading-or-trailing-space")
				vassert(out[i+1] != ' ' && out[i+1] != '\t', "no-double-space")
				c = ' '
			}
			text = append(text, c)
			i++
		}
	}
	// the text content is the input, whitespace normalised
	var want []byte
	for i := 0; i < len(s); {
		c := s[i]
		if c == 0xC2 && i+1 < len(s) && s[i+1] == 0xA0 {
			want = append(want, ' ')
			i += 2
			continue
		}
		if c == '\t' {
			c = ' '
		}
		want = append(want, c)
		i++
	}
	vassert(string(text) == string(want), "content-preserved")
}

// vc26_codeblock: a value shown in an indented code block never leaves it.
func vc26_codeblock(n int, spaces bool) {
	s := vsym_string(n)
	var w vWriter
	vassert(showInMarkdownCodeBlock(nil, &w, vStringer{s}, spaces) == nil, "no-error")
	indent := "\t"
	if spaces {
		indent = "    "
	}
	out := string(w.buf)
	// every newline in the output is followed by the indentation; removing
	// those indentations gives back the input
	var back []byte
	for i := 0; i < len(out); {
		c := out[i]
		back = append(back, c)
		i++
		if c == '\n' {
			// the indentation must follow the newline immediately: a converter
			// (goldmark) does not take "\r\t" at a line start for an indented line
			vassert(len(out)-i >= len(indent) && out[i:i+len(indent)] == indent, "newline-followed-by-indent")
			i += len(indent)
		}
	}
	vassert(string(back) == s, "content-preserved")
}

// vc26_html: allowHTML == true never panics, fails only for an unterminated
// comment / CDATA section, and always writes a prefix-closed output.
func vc26_html(n int) {
	s := vsym_string(n)
	var w vWriter
	err := showInMarkdown(nil, &w, native.HTML(s))
	if err != nil {
		hasOpen := false
		for i := 0; i+3 < len(s); i++ {
			if s[i] == '<' && s[i+1] == '!' {
				hasOpen = true
			}
		}
		vassert(hasOpen, "error-only-for-unterminated-comment-or-cdata")
	}
}

// vc26_html_seeded: the comment / CDATA branches need a 4- or 9-byte opener.
func vc26_html_seeded(seed string, n int) {
	s := vsym_string(2) + seed + vsym_string(n)
	var w vWriter
	err := showInMarkdown(nil, &w, native.HTML(s))
	_ = err
}

func vh_c26_escape_q()   { vc26_escape(3) }
func vh_c26_escape_t()   { vc26_escape(4) }
func vh_c26_cbspaces_q() { vc26_codeblock(4, true) }
func vh_c26_cbtab_q()    { vc26_codeblock(4, false) }
func vh_c26_cbspaces_t() { vc26_codeblock(7, true) }
func vh_c26_cbtab_t()    { vc26_codeblock(7, false) }
func vh_c26_html_q()     { vc26_html(4) }
func vh_c26_html_t()     { vc26_html(5) }
func vh_c26_comment_q()  { vc26_html_seeded("<!--", 4) }
func vh_c26_cdata_q()    { vc26_html_seeded("<![CDATA[", 4) }
func vh_c26_comment_t()  { vc26_html_seeded("<!--", 5) }
func vh_c26_cdata_t()    { vc26_html_seeded("<![CDATA[", 5) }
